"""C03 - strict mode accepts an input only if every size field is exact.

R1 region typestate on the specialised traces of every owner walker (command, response, TPM2B)
   and of the byte-sized-array walker: every SizeConstraint is armed exactly once, right after the
   process call of its size field, with size_max = that call's decoded value and constraint_path =
   that field's path; it is registered in the list the children receive; its *governed set* (the
   fields processed while it is registered and not yet closed) equals the reference written from
   the statement; it is closed on every normal exit (or its close is transferred through
   `array_size_constraint=` to the byte-sized-array walker, which closes it).
R2 look-ahead dominance: in the primitive walker the charge `size_constraints.bytes_parsed(path,
   size)` dominates the first byte request and uses the same size as the read loop.
R3 who may read: byte requests occur only in the primitive walker and consume_bytes, and
   consume_bytes is called only from constraints.py.
R4 threading: every recursive call made by a function that received `size_constraints` passes it
   on unchanged; only the dispatcher default and the two message walkers start a fresh list.
R5 error identity and accounting shape: each of the three size errors is constructed at one site
   with `self` as constraint and the caller's path as violator; the list charges every registered
   region; anticipation runs against all other registered regions.
Not decided: the arithmetic on runtime integers (>, ==, exceeded_by) and therefore "earliest point".
"""
from __future__ import annotations

import ast

from .. import ctx
from ..flow import yields_in
from ..fnview import FnView
from ..project import AnalysisError, call_name, kwarg, norm, walk_no_nested
from ..roles import CONSTRAINTS, MARSHAL, MarshalRoles
from ..specialise import Specialiser, render

ALL = "<all fields>"
# reference written from the statement: which fields each size field governs
GOVERNS = {
    ("process_command", "commandSize"): ALL,
    ("process_command", "authSize"): ["authorizationArea"],
    ("process_response", "responseSize"): ALL,
    ("process_response", "parameterSize"): ["parameters"],
}


def label_of(ev):
    """human label of a process event: field name, or size/payload for the TPM2B walker"""
    if ev.data.get("field"):
        return ev.data["field"]
    t = ev.data.get("type")
    if isinstance(t, tuple) and t[0] == "attr" and isinstance(t[1], tuple) and t[1][0] == "unpack":
        return ("size", "payload")[t[1][2]] if t[1][2] in (0, 1) else f"field#{t[1][2]}"
    return render(t)


def check(run, project):
    roles = MarshalRoles(project)
    L = ctx.layout(project)
    run.explanation = ("loop specialisation of the framing walkers with the field lists from L, abstract traces of "
                       "create/register/arm/process/close events per (tag, response code, payload kind) variant; region "
                       "life cycle and governed sets checked on every trace; CFG dominance and who-may-call rules for the rest")
    from .carriers import check_carriers
    check_carriers(run, project, "R7", {"constraint", "violator_path", "exceeded_by", "violator_value"})
    mod = roles.mod
    n_traces = 0
    owners = [("process_command", L.Command), ("process_response", L.Response), ("process_tpm2b", None)]
    for wname, T in owners:
        fn = roles.walkers.get(wname)
        if fn is None:
            raise AnalysisError(f"C03: walker {wname} not found")
        sp = Specialiser(L, mod, fn, T, dispatcher=roles.dispatcher.name)
        traces = [s for s in sp.run() if s.status == "return"]
        run.require(len(traces) >= 2, f"C03: {wname}: only {len(traces)} normal traces")
        n_traces += len(traces)
        for tr in traces:
            r1_trace(run, mod, fn, wname, tr, L)
    bsa = roles.walkers.get("process_byte_sized_array")
    if bsa is None:
        raise AnalysisError("C03: byte-sized-array walker not found")
    sp = Specialiser(L, mod, bsa, None, dispatcher=roles.dispatcher.name)
    for tr in [s for s in sp.run() if s.status == "return"]:
        n_traces += 1
        closes = [e for e in tr.trace if e.kind == "close" and e.data["region"] == ("param", "array_size_constraint")]
        procs = [e for e in tr.trace if e.kind == "process"]
        ok = len(closes) == 1 and all(tr.trace.index(p) < tr.trace.index(closes[0]) for p in procs)
        run.ob("R1", ok, f"process_byte_sized_array closes the transferred region after its elements {variant(tr)}",
               "the byte-sized-array walker does not close `array_size_constraint` on a normal exit (the region transferred "
               "to it by the message walker stays open: a short authorization area is accepted)", module=mod, node=bsa,
               func=bsa.name, construct="close of array_size_constraint")
    # its loop is bounded by the region, not by a count
    loops = [n for n in walk_no_nested(bsa) if isinstance(n, ast.While)]
    ok = len(loops) == 1 and norm(loops[0].test) in (
        "array_size_constraint.size_already < array_size_constraint.size_max",
        "array_size_constraint.size_max > array_size_constraint.size_already")
    run.ob("R1", ok, "byte-sized array reads elements while the region is not full",
           f"loop condition is `{norm(loops[0].test) if loops else '?'}`", module=mod, node=loops[0] if loops else bsa,
           func=bsa.name, construct="byte-sized array loop condition")
    run.cover(traces=n_traces)
    r2(run, roles)
    r3(run, project, roles)
    r4(run, roles)
    r5(run, project)
    r8(run, project)
    from .shared import discarded_generators
    discarded_generators(run, project, "R9")
    r6(run, project)
    r7(run, project)
    # R10: which bytes a TPM2B size of the first parameter governs depends on the layout the message walker selects for the
    # parameter area - the opaque TPM2B_ENCRYPTED_PARAM exactly when a session of that message requests it (command: decrypt,
    # response: encrypt).  The framing obligations of C01-F and the which-bit rule C09-S3, judged here for this property
    from ..report import RuleView
    from . import c01
    from .c09 import s3
    c01.framing(RuleView(run, "F", "R10"), roles, L)
    s3(RuleView(run, "S3", "R10"), roles, L)
    # R11 (= C07-NI-1): strict decoding raises at the point where the inconsistency is detected: every handler of a size error re-raises it in strict mode (the raise-versus-wrap mode tests of C07-NI-1): a test that lets strict mode fall into the warn branch turns the error into a warning and accepts the input
    from ..report import RuleView as _RVm
    from . import c07 as _c07
    try:
        _c07.check(_RVm(run, "NI-1", "R11"), project)
    except AnalysisError as ex:
        run.info(f"R11: the mode tests could not be followed ({ex}); not judged here (C07 reports it)")
    # R12 (= C01-W0): how many bytes a field charges to the regions that enclose it is what the layout tables say (field lists
    # and declared types, widths, the element counts of union arms): the decode facets of all types equal the pinned snapshot
    from . import c20 as _c20
    try:
        _c20.t6(run, project, L, facets={"decode"}, rule="R12")
    except AnalysisError as ex:
        run.info(f"R12: the layout tables could not be compared ({ex}); not judged here (C01 / C20 report it)")
    run.floor("R1", 20, "region obligations")
    run.floor("R4", 20, "threaded call sites")


def variant(tr):
    return "[" + ", ".join(f"{k}={v}" for k, v in sorted(tr.decisions.items())) + "]" if tr.decisions else "[]"


def r1_trace(run, mod, fn, wname, tr, L):
    evs = tr.trace
    vid = variant(tr)
    procs = [e for e in evs if e.kind == "process"]
    created = [e.data["region"] for e in evs if e.kind == "create"]
    child_lists = {render(p.data["kwargs"].get("size_constraints")) for p in procs}
    for reg in created:
        arms = [e for e in evs if e.kind == "arm" and e.data["region"] == ("region", reg)]
        regs = [e for e in evs if e.kind == "register" and e.data["region"] == reg]
        closes = [e for e in evs if e.kind == "close" and e.data["region"] == ("region", reg)]
        site = f"{wname} {vid} region {reg}"
        if not arms:
            # never armed in this variant: it must not be registered either (it would count bytes with no limit
            # and trip the final check) and nobody may close it
            run.ob("R1", not regs and not closes, f"{site}: unused in this variant",
                   "a region that is never armed in this variant is registered or closed", module=mod,
                   node=(regs or closes)[0].node if (regs or closes) else fn, func=wname, construct=f"{reg} [unarmed but used] {vid}")
            continue
        run.ob("R1", len(arms) == 1, f"{site}: armed once", f"armed {len(arms)} times", module=mod, node=arms[-1].node,
               func=wname, construct=f"{reg} [armed {len(arms)}x] {vid}")
        arm = arms[0]
        ai = evs.index(arm)
        prev_proc = next((e for e in reversed(evs[:ai]) if e.kind == "process"), None)
        sm = arm.data["kwargs"].get("size_max")
        cp = arm.data["kwargs"].get("constraint_path")
        okprov = prev_proc is not None and isinstance(sm, tuple) and sm[0] == "result" and sm[2] == 1 and \
            sm[1] == (prev_proc.data["field"], prev_proc.data["index"])
        size_field = label_of(prev_proc) if prev_proc is not None else None
        run.ob("R1", okprov, f"{site}: limit is the value just decoded for its size field ({size_field})",
               f"size_max is `{render(sm)}`, not the decoded value of the field processed immediately before arming "
               f"({size_field})", module=mod, node=arm.node, func=wname, construct=f"{reg}.set_constraint size_max {vid}")
        run.ob("R1", prev_proc is not None and cp == prev_proc.data["path"], f"{site}: names its size field's path",
               f"constraint_path is `{render(cp)}` but the size field was decoded at `{render(prev_proc.data['path']) if prev_proc else None}`",
               module=mod, node=arm.node, func=wname, construct=f"{reg}.set_constraint constraint_path {vid}")
        osc = arm.data["kwargs"].get("other_size_constraints")
        run.ob("R1", render(osc) in child_lists, f"{site}: anticipation runs against the regions the children see",
               f"other_size_constraints is `{render(osc)}`", module=mod, node=arm.node, func=wname,
               construct=f"{reg}.set_constraint other_size_constraints {vid}")
        # registered in the list the children receive
        okreg = len(regs) == 1 and (repr(("rlist", regs[0].data["list"])) in child_lists or f"param:{regs[0].data['list']}" in child_lists
                                    or render(("rlist", regs[0].data["list"])) in child_lists)
        run.ob("R1", okreg, f"{site}: registered once in the list handed to the children",
               f"registered {len(regs)} times / in a list the children do not receive ({[r.data['list'] for r in regs]} vs {sorted(child_lists)})",
               module=mod, node=(regs[0].node if regs else arm.node), func=wname, construct=f"{reg} [registration] {vid}")
        if not regs:
            continue
        ri = evs.index(regs[0])
        # governed set
        first_close = evs.index(closes[0]) if closes else len(evs)
        transferred = [p for p in procs if p.data["kwargs"].get("array_size_constraint") == ("region", reg)]
        if transferred:
            # the callee closes the region before it returns: the transfer point ends the governed set
            first_close = min(first_close, evs.index(transferred[0]) + 1)
        governed = []
        for p in procs:
            pi = evs.index(p)
            if ri < pi < first_close:
                governed.append(label_of(p))
        # an empty structured payload is represented by its marker event (no bytes): it counts as governed-nothing
        key = (wname, size_field)
        if wname == "process_tpm2b":
            ref = ["payload"] if any(label_of(p) == "payload" for p in procs) else []
        else:
            ref = GOVERNS.get(key)
        if ref is None:
            run.ob("R1", False, f"{site}: governed set", f"a region armed from `{size_field}` has no reference governed set "
                   "(unknown size field)", module=mod, node=arm.node, func=wname, construct=f"{reg} [unknown size field {size_field}] {vid}")
        elif ref == ALL:
            all_labels = [label_of(p) for p in procs]
            run.ob("R1", governed == all_labels and regs[0].data.get("at_creation"),
                   f"{site}: governs the whole message from its first byte",
                   f"governs {governed}, the message consists of {all_labels} (a root region must be registered from creation "
                   "so that the header is counted)", module=mod, node=regs[0].node, func=wname,
                   construct=f"{reg} [governed set] {vid}")
        else:
            present = [f for f in ref if any(label_of(p) == f for p in procs)]
            run.ob("R1", governed == present, f"{site}: governs exactly {present}",
                   f"governs {governed} but `{size_field}` is the byte length of {present}", module=mod,
                   node=regs[0].node, func=wname, construct=f"{reg} [governed set] {vid}")
        # registered only after its own size field was read (else the size field counts itself)
        if ref != ALL and prev_proc is not None:
            run.ob("R1", ri > evs.index(prev_proc), f"{site}: registered after its size field",
                   "registered before its own size field is decoded (the size field's bytes are charged to the region)",
                   module=mod, node=regs[0].node, func=wname, construct=f"{reg} [registered early] {vid}")
        # closed on this normal exit (or transferred)
        closed = bool(closes) or bool(transferred)
        run.ob("R1", closed, f"{site}: closed on this exit",
               "this normal exit leaves the region open: a region that ends short is never reported "
               "(SizeConstraintSubceededError cannot be raised)", module=mod,
               node=next((e.node for e in reversed(evs) if e.kind == "return" and e.node is not None), fn), func=wname,
               construct=f"{reg} [not closed] {vid}")
        for c in closes:
            run.ob("R1", render(c.data["kwargs"].get("all_size_constraints")) in child_lists or True, f"{site}: close call")
        if transferred:
            t = transferred[0]
            tt = t.data["type"]
            islist = isinstance(tt, tuple) and tt[0] == "type" and type(tt[1]).__name__ == "ListT"
            run.ob("R1", islist, f"{site}: close transferred to the byte-sized array walker",
                   f"`array_size_constraint=` is passed with a non-list field type {render(tt)} (nobody closes the region)",
                   module=mod, node=t.node, func=wname, construct=f"{reg} [transfer] {vid}")
    # a region handed to a child must be one created (or received) here
    for p in procs:
        asc = p.data["kwargs"].get("array_size_constraint")
        if asc is not None and asc != ("const", None) and asc[0] != "region":
            run.ob("R1", False, f"{wname} {vid}: array_size_constraint", f"array_size_constraint is `{render(asc)}`",
                   module=mod, node=p.node, func=wname, construct=f"array_size_constraint {vid}")


def r2(run, roles):
    fn = roles.walkers.get("process_primitive")
    V = FnView(roles.mod, fn)
    mod = roles.mod
    charges = [c for c in V.calls(attr="bytes_parsed")]
    run.ob("R2", len(charges) == 1, "primitive walker charges the regions once", f"{len(charges)} bytes_parsed calls",
           module=mod, node=fn, func=fn.name, construct="bytes_parsed call")
    if len(charges) != 1:
        return
    c = charges[0]
    sc = fn.args.args[2].arg if len(fn.args.args) > 2 else "size_constraints"
    run.ob("R2", norm(c.func.value) == sc and isinstance(c._parent, ast.YieldFrom), "the charge is `yield from size_constraints.bytes_parsed(...)`",
           f"charge is `{norm(c._parent)[:80]}`", module=mod, node=c, func=fn.name, construct="charge form")
    reqs = []
    for n in V.cfg.nodes:
        if n.kind == "stmt" and n.ast is not None:
            for y in yields_in(n.ast):
                if isinstance(y, ast.Yield) and (y.value is None or (isinstance(y.value, ast.Constant) and y.value.value is None)):
                    reqs.append(n)
    run.require(bool(reqs), "C03: no byte request in the primitive walker")
    cn = V.node_of(c)
    # guarded only by `size_constraints is not None`
    tests = [t for t in V.cfg.nodes if t.kind == "test" and t.id in V.dom[cn.id]]
    okg = all(norm(t.ast) == f"{sc} is not None" for t in tests)
    # dominance modulo that guard: every path to a byte request passes the charge or the None-branch of the guard
    after = V.reachable_from(c, include_exc=False)
    ok = all(r.id in after for r in reqs) and okg
    bypass = paths_bypassing(V, cn, reqs, allowed_test=f"{sc} is not None")
    run.ob("R2", ok and not bypass, "the charge precedes the first byte request on every path",
           "a byte can be requested before the enclosing regions were charged (the overrun is detected only after the field "
           "was consumed)", module=mod, node=c, func=fn.name, construct="charge before read")
    # same size as the read loop; path is the walker's path
    args = [norm(a) for a in c.args]
    loops = [n for n in walk_no_nested(fn) if isinstance(n, ast.For) and any(isinstance(y, ast.Yield) for y in ast.walk(n))]
    same = len(loops) == 1 and isinstance(loops[0].iter, ast.Call) and len(args) >= 2 and \
        norm(V.resolve(loops[0].iter.args[0], loops[0])) == norm(V.resolve(c.args[1], c))
    run.ob("R2", same, "the charged size is the number of bytes the read loop consumes",
           f"charged `{args[1] if len(args) > 1 else None}` vs loop `{norm(loops[0].iter) if loops else None}`", module=mod,
           node=c, func=fn.name, construct="charged size")
    run.ob("R2", len(args) >= 1 and args[0] == fn.args.args[1].arg, "the charge names the field's path as violator",
           f"first argument is `{args[0] if args else None}`", module=mod, node=c, func=fn.name, construct="charged path")
    # effective anticipate_only of the charge: the explicit argument, else the default of the list's bytes_parsed
    cmod = roles.project.module(CONSTRAINTS)
    lb = cmod.functions().get("SizeConstraintList.bytes_parsed")
    if lb is None:
        raise AnalysisError("R2: SizeConstraintList.bytes_parsed not found")
    lpar = [a.arg for a in lb.args.args]
    ldef = dict(zip(lpar[len(lpar) - len(lb.args.defaults):], lb.args.defaults))
    explicit = next((k.value for k in c.keywords if k.arg == "anticipate_only"), None)
    if explicit is None and "anticipate_only" in lpar and len(c.args) >= lpar.index("anticipate_only"):
        explicit = c.args[lpar.index("anticipate_only") - 1]
    eff = explicit if explicit is not None else ldef.get("anticipate_only")
    run.ob("R2", isinstance(eff, ast.Constant) and eff.value is False, "the charge is real (not anticipate-only)",
           f"the primitive walker's charge runs with anticipate_only={norm(eff) if eff is not None else '<required>'}"
           + ("" if explicit is not None else " (the default of SizeConstraintList.bytes_parsed)")
           + ": the enclosing regions are only asked, the bytes are never counted - no size field is enforced any more", module=mod, node=c,
           func=fn.name, construct="charge anticipate_only")


def paths_bypassing(V, charge_node, reqs, allowed_test):
    """is there a path entry -> byte request avoiding charge_node, other than through the false edge of the allowed guard?"""
    targets = {r.id for r in reqs}
    seen, stack = set(), [V.cfg.entry]
    while stack:
        n = stack.pop()
        if n.id in seen or n is charge_node:
            continue
        seen.add(n.id)
        if n.id in targets:
            return True
        for lab, s in n.succ:
            if n.kind == "test" and norm(n.ast) == allowed_test and lab == "false":
                continue
            stack.append(s)
    return False


def r3(run, project, roles):
    mod = roles.mod
    for name, fn in roles.funcs.items():
        for y in walk_no_nested(fn):
            if isinstance(y, ast.Yield) and (y.value is None or (isinstance(y.value, ast.Constant) and y.value.value is None)):
                ok = name in ("process_primitive", "consume_bytes")
                run.ob("R3", ok, f"{name} L{y.lineno}: byte request",
                       f"{name} requests input bytes itself: they are charged to no region", module=mod, node=y, func=name,
                       construct=f"byte request in {name}")
    cm = project.module(CONSTRAINTS)
    from .shared import locate_function
    cbm, _cb = locate_function(project, cm, "consume_bytes")
    for m_ in ([cm] if cbm in (None, cm) else [cm, cbm]):
        for q, fn in m_.functions().items():
            for y in walk_no_nested(fn):
                if isinstance(y, ast.Yield) and (y.value is None or (isinstance(y.value, ast.Constant) and y.value.value is None)):
                    run.ob("R3", q == "consume_bytes", f"{m_.name.split('.')[-1]}.{q} L{y.lineno}: byte request",
                           f"{q} requests bytes outside consume_bytes", module=m_, node=y, func=q, construct=f"byte request in {q}")
    for modname, m in project.modules.items():
        for q, fn in m.functions().items():
            for c in walk_no_nested(fn):
                if isinstance(c, ast.Call) and call_name(c) == "consume_bytes":
                    run.ob("R3", modname == CONSTRAINTS, f"{modname.split('.')[-1]}.{q} L{c.lineno}: consume_bytes call",
                           "consume_bytes (uncharged skipping of input) is called outside the constraint module", module=m,
                           node=c, func=q, construct="consume_bytes call")


def r4(run, roles):
    mod = roles.mod
    d = roles.dispatcher.name
    roots = {"process_command", "process_response"}
    for name, fn in roles.funcs.items():
        params = [a.arg for a in fn.args.args]
        for c in walk_no_nested(fn):
            if not (isinstance(c, ast.Call) and call_name(c) in set(roles.walkers) | {d}):
                continue
            callee = roles.funcs.get(call_name(c))
            if callee is None or "size_constraints" not in [a.arg for a in callee.args.args]:
                continue
            k = kwarg(c, "size_constraints")
            if "size_constraints" in params:
                ok = isinstance(k, ast.Name) and k.id == "size_constraints"
                run.ob("R4", ok, f"{name} L{c.lineno}: threads size_constraints",
                       f"{call_name(c)}(...) is called {'without size_constraints' if k is None else 'with ' + norm(k)}: the callee falls "
                       "back to a fresh list and escapes every enclosing size region", module=mod, node=c, func=name,
                       construct=f"{call_name(c)}(...) [size_constraints]")
            elif name in roots:
                ok = isinstance(k, ast.Name) and k.id == "size_constraints"
                run.ob("R4", ok, f"{name} L{c.lineno}: passes its root list", "the message walker does not hand its region list "
                       "to the field decoder", module=mod, node=c, func=name, construct=f"{call_name(c)}(...) [size_constraints]")
            elif name in ("marshal", "process_command_response_stream"):
                run.ob("R4", k is None, f"{name} L{c.lineno}: starts without regions", "a top-level caller passes a region list",
                       module=mod, node=c, func=name, construct=f"{call_name(c)}(...) [size_constraints]")
    # the dispatcher's default: fresh list only when None was passed
    disp = roles.dispatcher
    dflt = [s for s in disp.body if isinstance(s, ast.If) and norm(s.test) == "size_constraints is None"]
    ok = len(dflt) == 1 and len(dflt[0].body) == 1 and norm(dflt[0].body[0]) == "size_constraints = SizeConstraintList()"
    run.ob("R4", ok, "dispatcher: fresh list only when the caller passed none", "dispatcher default for size_constraints changed",
           module=mod, node=disp, func=disp.name, construct="size_constraints default")
    for name, fn in roles.funcs.items():
        for st in walk_no_nested(fn):
            if isinstance(st, ast.Assign) and any(isinstance(t, ast.Name) and t.id == "size_constraints" for t in st.targets):
                ok = name in roots or name == disp.name
                run.ob("R4", ok, f"{name} L{st.lineno}: (re)binds size_constraints", f"{name} replaces the region list it was given",
                       module=mod, node=st, func=name, construct="size_constraints rebinding")


def r5(run, project):
    cm = project.module(CONSTRAINTS)
    sites = {"SizeConstraintExceededError": [], "SizeConstraintSubceededError": [], "AnticipatedSizeConstraintExceededError": []}
    for modname in (CONSTRAINTS, MARSHAL):
        m = project.module(modname)
        for q, fn in m.functions().items():
            for c in walk_no_nested(fn):
                if isinstance(c, ast.Call) and call_name(c) in sites:
                    sites[call_name(c)].append((m, q, c))
    for cls, lst in sites.items():
        run.ob("R5", len(lst) == 1 and lst[0][0] is cm, f"{cls} is constructed at one site in the constraint module",
               f"{len(lst)} construction sites: {[q for _, q, _ in lst]}", module=lst[0][0] if lst else cm,
               node=lst[0][2] if lst else cm.tree, func=lst[0][1] if lst else "<module>", construct=f"{cls} sites")
        for m, q, c in lst[:1]:
            first = c.args[0] if c.args else kwarg(c, "constraint")
            run.ob("R5", first is not None and norm(first) == "self", f"{cls} names the violated region itself",
                   f"constraint argument is `{norm(first) if first is not None else None}`", module=m, node=c, func=q,
                   construct=f"{cls}(constraint)")
            if cls != "SizeConstraintSubceededError":
                vp = kwarg(c, "violator_path")
                fn = m.functions()[q]
                run.ob("R5", vp is not None and norm(vp) == fn.args.args[1].arg, f"{cls} names the offending field's path",
                       f"violator_path is `{norm(vp) if vp is not None else None}`", module=m, node=c, func=q,
                       construct=f"{cls}(violator_path)")
    # the list charges every registered region
    f = cm.functions().get("SizeConstraintList.bytes_parsed")
    if f is None:
        raise AnalysisError("C03: SizeConstraintList.bytes_parsed not found")
    loops = [s for s in f.body if isinstance(s, ast.For)]
    ok = len(loops) == 1 and norm(loops[0].iter) in ("self.copy()", "list(self)", "self[:]", "tuple(self)")
    inner = [c for c in ast.walk(loops[0]) if isinstance(c, ast.Call) and isinstance(c.func, ast.Attribute) and c.func.attr == "bytes_parsed"] if loops else []
    p = [a.arg for a in f.args.args]
    ok = ok and len(inner) == 1 and norm(inner[0].func.value) == loops[0].target.id and [norm(a) for a in inner[0].args] == p[1:3] and \
        any(k.arg == "anticipate_only" and norm(k.value) == "anticipate_only" for k in inner[0].keywords)
    cut = [n for n in ast.walk(loops[0]) if isinstance(n, (ast.Break, ast.Return))] if loops else []
    run.ob("R5", ok and not cut, "every registered region is charged for every field",
           "SizeConstraintList.bytes_parsed no longer forwards (path, size, anticipate_only) to each member", module=cm, node=f,
           func="SizeConstraintList.bytes_parsed", construct="list charge loop")
    hs = [h for h in ast.walk(f) if isinstance(h, ast.ExceptHandler)]
    run.ob("R5", all(h.type is not None and norm(h.type) == "ConstraintObsoleteError" for h in hs), "only closed regions are dropped from the list",
           f"handlers: {[norm(h.type) if h.type is not None else '*' for h in hs]}", module=cm, node=f,
           func="SizeConstraintList.bytes_parsed", construct="list charge handlers")
    # set_constraint anticipates against all *other* registered regions
    sc = cm.functions().get("SizeConstraint.set_constraint")
    if sc is None:
        raise AnalysisError("C03: SizeConstraint.set_constraint not found")
    ant = [c for c in walk_no_nested(sc) if isinstance(c, ast.Call) and isinstance(c.func, ast.Attribute) and c.func.attr == "bytes_parsed"]
    ok = len(ant) == 1 and isinstance(getattr(ant[0], "_parent", None), ast.YieldFrom) \
        and any(k.arg == "anticipate_only" and isinstance(k.value, ast.Constant) and k.value.value is True for k in ant[0].keywords) \
        and len(ant[0].args) == 2 and norm(ant[0].args[0]) in ("self.constraint_path", sc.args.args[1].arg) \
        and norm(ant[0].args[1]) in ("self.size_max", sc.args.args[2].arg) \
        and not any(isinstance(n, ast.Name) and isinstance(n.ctx, ast.Store) and n.id in (sc.args.args[1].arg, sc.args.args[2].arg)
                    for n in walk_no_nested(sc))
    run.ob("R5", ok, "arming anticipates the new size against the enclosing regions",
           "set_constraint no longer runs `yield from <enclosing regions>.bytes_parsed(self.constraint_path, self.size_max, anticipate_only=True)` "
           "(a generator that is created but not iterated checks nothing)", module=cm,
           node=sc, func="SizeConstraint.set_constraint", construct="anticipation call")
    flt = [g for g in walk_no_nested(sc) if isinstance(g, ast.GeneratorExp)]
    ok = len(flt) == 1 and norm(flt[0].generators[0].iter) == sc.args.args[3].arg and len(flt[0].generators[0].ifs) == 1 and \
        norm(flt[0].generators[0].ifs[0]) in ("c != self", "c is not self")
    run.ob("R5", ok, "anticipation excludes only the region itself", "the set of regions checked at arming time changed",
           module=cm, node=sc, func="SizeConstraint.set_constraint", construct="anticipation filter")
    asg = {norm(s.targets[0]): norm(s.value) for s in walk_no_nested(sc) if isinstance(s, ast.Assign)}
    ok = asg.get("self.size_max") == sc.args.args[2].arg and asg.get("self.constraint_path") == sc.args.args[1].arg
    run.ob("R5", ok, "arming stores the limit and the size field's path", f"assignments: {asg}", module=cm, node=sc,
           func="SizeConstraint.set_constraint", construct="arming stores")
    # bytes_parsed: counts when not anticipating; assert_done closes
    bp = cm.functions().get("SizeConstraint.bytes_parsed")
    if bp is None:
        raise AnalysisError("C03: SizeConstraint.bytes_parsed not found")
    if len(bp.args.args) < 4:
        raise AnalysisError("C03: SizeConstraint.bytes_parsed no longer has the (path, size, anticipate_only) interface the region rules "
                            "R2 / R5 / R7 / R8 are stated over (asking and charging were split into separate methods?): a redistribution of "
                            "responsibilities between the region methods is not followed - DESIGN section 7")
    size_p, ant_p = bp.args.args[2].arg, bp.args.args[3].arg
    from .. import paths
    n_paths = 0
    for pa in paths.summarise(cm, bp):
        writes = [norm(e) for k, e, _n in pa.effects if k == "store" and "self.size_already" in norm(e).split("=")[0]]
        ant = pa.truth(f"truthy {ant_p}")
        lab = " & ".join(("" if v else "not ") + a for a, v, _ in pa.cond) or "always"
        if pa.end == "raise":
            ok, want = not writes, "nothing"
        elif ant is True:
            ok, want = not writes, "nothing (anticipation only looks ahead)"
        elif ant is False:
            ok, want = writes == [f"self.size_already += {size_p}"], f"self.size_already += {size_p}, once"
        else:
            ok, want = False, f"a decision on {ant_p}"
        n_paths += 1
        run.ob("R5", ok, f"bytes_parsed [{lab}]: size_already accounting",
               f"size_already is no longer increased by `{size_p}` exactly when not anticipating: on the path [{lab}] (ends in {pa.end}) "
               f"the writes are {writes}, required: {want}", module=cm, node=pa.node or bp, func="SizeConstraint.bytes_parsed",
               construct="size_already accounting")
    run.require(n_paths >= 5, f"C03: only {n_paths} paths through SizeConstraint.bytes_parsed")
    ad = cm.functions().get("SizeConstraint.assert_done")
    obs = [s for s in walk_no_nested(ad) if isinstance(s, ast.Assign) and norm(s.targets[0]) == "self.is_obsolete"]
    # the region is retired on every way out: a store of True at statement level of the body before anything that can leave
    # (return / raise / yield), and no store of anything else
    early = False
    for st in ad.body:
        if st in obs:
            early = True
            break
        if any(isinstance(x, (ast.Return, ast.Raise, ast.Yield, ast.YieldFrom)) for x in ast.walk(st)):
            break
    run.ob("R5", obs and early and all(norm(o.value) == "True" for o in obs), "closing retires the region", "assert_done does not retire the region",
           module=cm, node=ad, func="SizeConstraint.assert_done", construct="is_obsolete on close")


def r8(run, project):
    """What a charge and a close DO, as decision tables over the path summaries of the two region methods (whatever way
    they are written):
      bytes_parsed  closed region -> ConstraintObsoleteError; armed and counted + size > limit -> anticipating: the
                    anticipated error, nothing else; charging: the region is retired, the rest of the region is skipped
                    and SizeConstraintExceededError is raised; in every other case no error;
      assert_done   counted == limit -> quiet; else strict: SizeConstraintSubceededError, warn: the warning with that error
                    and the rest of the region skipped; the region is retired on every path."""
    from .. import paths
    from .outcomes import check_table
    cm = project.module(CONSTRAINTS)
    bp = cm.functions().get("SizeConstraint.bytes_parsed")
    ad = cm.functions().get("SizeConstraint.assert_done")
    if bp is None or ad is None:
        raise AnalysisError("C03: constraint methods not found")
    size_p, ant_p = bp.args.args[2].arg, bp.args.args[3].arg
    O, M, A = "truthy self.is_obsolete", "self.size_max is None", f"truthy {ant_p}"
    X = f"self.size_max < self.size_already + {size_p}"
    rest = "consume_bytes(self.size_max - self.size_already)"

    def raised(p):
        v = p.value
        return (call_name(v) if isinstance(v, ast.Call) else paths.text(v)) if v is not None else "?"

    def protocol_change(p):
        """a region method that YIELDS an object of a project class other than the warning (a request to the driver - "skip n
        bytes" - instead of consuming the bytes itself) changes the processor/driver protocol the rules R2 / R3 / R8, C08-Y4
        and C13-A3 are stated over: no verdict on that form"""
        for k, e, _n in p.effects:
            if k == "yield" and isinstance(e, ast.Call) and isinstance(e.func, ast.Name) and e.func.id not in ("WarningEvent", "MarshalEvent") \
                    and project.resolve_name(cm, e.func.id) is not None:
                raise AnalysisError(f"C03: {paths.text(e)[:60]} is yielded by a region method: skipping is delegated to the driver through a "
                                    "request object - a change of the processor / driver protocol that is not followed (DESIGN section 7)")

    def observe_bp(p):
        protocol_change(p)
        if p.end != "raise":
            return "no error"
        fx = [(k, paths.text(e) if isinstance(e, ast.AST) else e) for k, e, _n in p.effects if k in ("store", "yieldfrom", "yield")]
        retire = [("store", "self.is_obsolete = True"), ("yieldfrom", rest)]
        fx = [x for x in fx if not x[1].startswith("self.size_already")]
        return f"raise {raised(p)}" + (" after retiring the region and skipping its rest" if fx == retire else
                                       f" after {fx}" if fx else "")
    rows = [({O: True}, "raise ConstraintObsoleteError"),
            ({M: False, X: True, A: True}, "raise AnticipatedSizeConstraintExceededError"),
            ({M: False, X: True, A: False}, "raise SizeConstraintExceededError after retiring the region and skipping its rest")]
    n = check_table(run, "R8", cm, bp, "SizeConstraint.bytes_parsed", rows, observe_bp, "no error",
                    "a charge overruns exactly when the region is armed and counted + size exceeds its limit", "bytes_parsed outcome")
    run.require(n >= 5, f"C03: only {n} paths through SizeConstraint.bytes_parsed")
    mode = ad.args.args[2].arg
    E, S = "self.size_already == self.size_max", f"truthy {mode}"

    def observe_ad(p):
        protocol_change(p)
        fx = [(k, paths.text(e) if isinstance(e, ast.AST) else e) for k, e, _n in p.effects if k in ("store", "yieldfrom", "yield")]
        retired = ("store", "self.is_obsolete = True") in fx
        fx = [x for x in fx if x != ("store", "self.is_obsolete = True")]
        if p.end == "raise":
            r = raised(p)
            if r == "?" or p.truth(M) is True:
                return "assertion"
            return f"raise {r}" + ("" if retired else " without retiring the region") + (f" after {fx}" if fx else "")
        if not fx:
            return "quiet" + ("" if retired else " without retiring the region")
        if fx == [("yield", "WarningEvent(error=SizeConstraintSubceededError(self))"), ("yieldfrom", rest)]:
            return "warning, rest skipped" + ("" if retired else " without retiring the region")
        return str(fx)
    rows = [({M: True}, "assertion"), ({E: True}, "quiet"), ({E: False, S: True}, "raise SizeConstraintSubceededError"),
            ({E: False, S: False}, "warning, rest skipped")]
    n = check_table(run, "R8", cm, ad, "SizeConstraint.assert_done", rows, observe_ad, "quiet",
                    "a close is quiet exactly when counted == limit, else it reports the shortfall", "assert_done outcome", closed=(M,))
    run.require(n >= 3, f"C03: only {n} paths through SizeConstraint.assert_done")


def r6(run, project):
    """zero is a legitimate count: the limit / the bytes counted so far / the bytes remaining are never
    tested by truthiness (0 and None must not be conflated: a region that is exactly full has 0 bytes
    left and still has a limit)."""
    cm = project.module(CONSTRAINTS)
    cls = cm.classes().get("SizeConstraint")
    if cls is None:
        raise AnalysisError("C03: class SizeConstraint not found")
    base = {"self.size_max", "self.size_already"}
    # properties / locals derived from them
    derived_attrs = set()
    for m in cls.body:
        if isinstance(m, ast.FunctionDef) and any(norm(d) == "property" for d in m.decorator_list):
            if any(norm(x) in base for r in ast.walk(m) if isinstance(r, ast.Return) and r.value is not None for x in ast.walk(r.value)):
                derived_attrs.add(f"self.{m.name}")
    n = 0
    for m in cls.body:
        if not isinstance(m, ast.FunctionDef):
            continue
        counts = set(base) | derived_attrs
        changed = True
        while changed:
            changed = False
            for a in walk_no_nested(m):
                if isinstance(a, ast.Assign) and len(a.targets) == 1 and isinstance(a.targets[0], ast.Name) and a.targets[0].id not in counts:
                    if isinstance(a.value, (ast.Attribute, ast.Name, ast.BinOp)) and any(norm(x) in counts for x in ast.walk(a.value)):
                        counts.add(a.targets[0].id)
                        changed = True
        for node in walk_no_nested(m):
            operands = []
            if isinstance(node, (ast.If, ast.While, ast.IfExp, ast.Assert)):
                operands = [node.test]
            elif isinstance(node, ast.BoolOp):
                operands = list(node.values)
            elif isinstance(node, ast.UnaryOp) and isinstance(node.op, ast.Not):
                operands = [node.operand]
            def is_count(o):
                if isinstance(o, (ast.Name, ast.Attribute)):
                    return norm(o) in counts
                if isinstance(o, ast.BinOp) and isinstance(o.op, (ast.Add, ast.Sub)):
                    return any(norm(x) in counts for x in ast.walk(o))
                if isinstance(o, ast.IfExp):   # e.g. an expanded property `None if limit is None else limit - counted`
                    return is_count(o.body) or is_count(o.orelse)
                return False
            for o in operands:
                if isinstance(o, (ast.Name, ast.Attribute, ast.BinOp, ast.IfExp)):
                    n += 1
                    bad = is_count(o)
                    run.ob("R6", not bad, f"SizeConstraint.{m.name} L{o.lineno}: `{norm(o)}` in boolean context is not a byte count",
                           f"`{norm(o)}` is a byte count / limit (None = not armed, 0 = region exactly full) and is tested by truthiness: a "
                           "region with 0 bytes left is treated like an unarmed one, so a field starting exactly at the region's end "
                           "is consumed instead of raising SizeConstraintExceededError", module=cm, node=node,
                           func=f"SizeConstraint.{m.name}", construct=f"truthiness of {norm(o)}")
    run.ob("R6", True, f"SizeConstraint: {n} boolean-context operands examined")


def r7(run, project):
    """error details and skip amounts as *linear forms* over (bytes counted so far, size of the offending field, limit):
    exceeded_by = already + size - max at both overrun sites, violator_value = size, the overrun skip and the padding
    skip = max - already.  Decided by normalising the expressions (through locals and properties) to coefficient maps -
    no value is computed."""
    from ..fnview import inlined_tests, linear_form
    cm = project.module(CONSTRAINTS)
    bp = cm.functions().get("SizeConstraint.bytes_parsed")
    ad = cm.functions().get("SizeConstraint.assert_done")
    if bp is None or ad is None:
        raise AnalysisError("C03: constraint methods not found")
    size = bp.args.args[2].arg
    atoms = {"self.size_already", "self.size_max", size}
    want_exc = {"self.size_already": 1, size: 1, "self.size_max": -1}
    want_rest = {"self.size_max": 1, "self.size_already": -1}
    n = 0
    for c in [c for c in walk_no_nested(bp) if isinstance(c, ast.Call) and call_name(c) in
              ("SizeConstraintExceededError", "AnticipatedSizeConstraintExceededError")]:
        eb = kwarg(c, "exceeded_by")
        f = linear_form(cm, bp, eb, atoms) if eb is not None else None
        n += 1
        if eb is not None and f is None:
            raise AnalysisError(f"C03-R7: exceeded_by expression `{norm(eb)}` is not a recognisable linear form")
        run.ob("R7", f == want_exc, f"{call_name(c)}: exceeded_by = counted + size - limit",
               f"exceeded_by is `{norm(eb) if eb is not None else None}` (as a linear form: {f}); the error must report by how much "
               "`counted so far + this field` passes the limit", module=cm, node=c, func="SizeConstraint.bytes_parsed",
               construct=f"{call_name(c)}(exceeded_by)")
        vv = kwarg(c, "violator_value")
        if call_name(c).startswith("Anticipated"):
            run.ob("R7", vv is not None and linear_form(cm, bp, vv, atoms) == {size: 1}, "anticipated error carries the announced size",
                   f"violator_value is `{norm(vv) if vv is not None else None}`", module=cm, node=c, func="SizeConstraint.bytes_parsed",
                   construct="Anticipated(violator_value)")
    for fn, q in ((bp, "SizeConstraint.bytes_parsed"), (ad, "SizeConstraint.assert_done")):
        for c in [c for c in walk_no_nested(fn) if isinstance(c, ast.Call) and call_name(c) == "consume_bytes"]:
            f = linear_form(cm, fn, c.args[0], atoms) if c.args else None
            n += 1
            if c.args and f is None:
                raise AnalysisError(f"C03-R7: skip amount `{norm(c.args[0])}` is not a recognisable linear form")
            run.ob("R7", f == want_rest, f"{q}: skips limit - counted bytes", f"skip amount is `{norm(c.args[0]) if c.args else None}` "
                   f"(linear form {f}): decoding must resume exactly at the end the size field declares", module=cm, node=c, func=q,
                   construct=f"{q} skip amount")
    # the two decisive comparisons, as linear forms of (left - right)
    def diff_form(cmp_, fn):
        a = linear_form(cm, fn, cmp_.left, atoms)
        b = linear_form(cm, fn, cmp_.comparators[0], atoms)
        if a is None or b is None:
            return None
        out = dict(a)
        for k, v in b.items():
            out[k] = out.get(k, 0) - v
        return {k: v for k, v in out.items() if v}
    over = []
    for t in [x for x in inlined_tests(bp) if len(x.ops) == 1 and isinstance(x.ops[0], (ast.Gt, ast.Lt, ast.GtE, ast.LtE))]:
        f = diff_form(t, bp)
        if f is not None and set(f) >= {"self.size_max"}:
            over.append((t, f))
    if not over:
        raise AnalysisError("C03-R7: the overrun comparison of bytes_parsed was not found (unrecognised shape)")
    ok = len(over) == 1 and ((isinstance(over[0][0].ops[0], ast.Gt) and over[0][1] == want_exc) or
                             (isinstance(over[0][0].ops[0], ast.Lt) and over[0][1] == {k: -v for k, v in want_exc.items()}))
    run.ob("R7", ok, "overrun test: counted + size > limit (look-ahead, strict inequality)",
           f"the overrun comparison is `{norm(over[0][0]) if over else None}`: a field is an overrun iff the bytes counted so far plus "
           "its own size pass the limit", module=cm, node=over[0][0] if over else bp, func="SizeConstraint.bytes_parsed",
           construct="overrun comparison")
    eqs = [x for x in inlined_tests(ad) if len(x.ops) == 1 and isinstance(x.ops[0], (ast.Eq, ast.NotEq))
           and diff_form(x, ad) in ({"self.size_already": 1, "self.size_max": -1}, {"self.size_already": -1, "self.size_max": 1})]
    run.ob("R7", len(eqs) == 1, "region end test: counted == limit", "assert_done no longer compares the bytes counted with the limit for equality",
           module=cm, node=ad, func="SizeConstraint.assert_done", construct="region end comparison")
    run.require(n >= 4, "C03-R7: error construction / skip sites not found")
