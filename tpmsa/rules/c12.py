"""C12 - decoding is a pure function of its arguments.

P1 effects: in every function reachable from the decode / conversion entry points there is no
   `global`/`nonlocal` store and no attribute store, item store or mutating method call whose
   receiver resolves to a module-level or class-level object (module globals, imported names,
   `cls`, `type(x)`, class names); stores through locals and parameters are the per-decode state.
P2 memoisation: every memoising decorator in reachable code is identity-stable - unbounded, or
   with capacity >= the key space taken from L (one entry per TPMS_PARAMS subclass).
P3 no module-level generator/iterator objects and no mutable default arguments in reachable
   functions (state that would survive a call).
"""
from __future__ import annotations

import ast

from .. import ctx
from ..callgraph import CallGraph
from ..project import AnalysisError, call_name, norm, walk_no_nested

ENTRIES = [
    ("tpmstream.io.binary.marshal", "marshal"),
    ("tpmstream.io.binary.unmarshal", "unmarshal"),
    ("tpmstream.common.object", "events_to_obj"),
    ("tpmstream.common.object", "events_to_objs"),
    ("tpmstream.common.object", "obj_to_events"),
    ("tpmstream.common.canonical", "Canonical.__init__"),
    ("tpmstream.common.canonical", "Canonical.events"),
    ("tpmstream.common.canonical", "Canonical.object"),
    ("tpmstream.io.hex.marshal", "marshal"),
    ("tpmstream.io.swtpm_log.marshal", "marshal"),
    ("tpmstream.io.auto.marshal", "marshal"),
    ("tpmstream.spec.commands.params_common", "TPMS_PARAMS.encrypted"),
]
MUTATORS = {"append", "extend", "insert", "pop", "remove", "clear", "update", "setdefault", "add", "discard", "sort",
            "reverse", "popitem", "__setitem__", "__delitem__", "appendleft", "cache_clear"}
MEMO = {"lru_cache", "functools.lru_cache", "cache", "functools.cache"}


def module_level_names(mod):
    """names bound at module level (assignments, imports, defs, classes)"""
    out = {}
    for st in mod.tree.body:
        if isinstance(st, (ast.Import, ast.ImportFrom)):
            for a in st.names:
                out[(a.asname or a.name).split(".")[0]] = "import"
        elif isinstance(st, (ast.FunctionDef, ast.ClassDef)):
            out[st.name] = "def"
        elif isinstance(st, ast.Assign):
            for t in st.targets:
                for n in ast.walk(t):
                    if isinstance(n, ast.Name):
                        out[n.id] = "global"
        elif isinstance(st, (ast.AnnAssign, ast.AugAssign)) and isinstance(st.target, ast.Name):
            out[st.target.id] = "global"
        elif isinstance(st, (ast.Try, ast.If)):
            for n in ast.walk(st):
                if isinstance(n, (ast.FunctionDef, ast.ClassDef)):
                    out[n.name] = "def"
    return out


def local_names(fn):
    names = {a.arg for a in fn.args.posonlyargs + fn.args.args + fn.args.kwonlyargs}
    if fn.args.vararg:
        names.add(fn.args.vararg.arg)
    if fn.args.kwarg:
        names.add(fn.args.kwarg.arg)
    for n in walk_no_nested(fn):
        if isinstance(n, ast.Name) and isinstance(n.ctx, ast.Store):
            names.add(n.id)
        elif isinstance(n, ast.ExceptHandler) and n.name:
            names.add(n.name)
        elif isinstance(n, (ast.FunctionDef, ast.ClassDef)):
            names.add(n.name)
    return names


def enclosing_locals(fn):
    """locals of enclosing functions (closures)"""
    out = set()
    p = getattr(fn, "_parent", None)
    while p is not None:
        if isinstance(p, (ast.FunctionDef, ast.AsyncFunctionDef)):
            out |= local_names(p)
        p = getattr(p, "_parent", None)
    return out


def root_of(expr):
    while isinstance(expr, (ast.Attribute, ast.Subscript)):
        expr = expr.value
    return expr


def check_memo(run, ref, keyspace, rule="P2"):
    fn, mod = ref.node, ref.mod
    for dec in fn.decorator_list:
        target = dec.func if isinstance(dec, ast.Call) else dec
        dn = norm(target)
        if dn not in MEMO:
            continue
        cap = None
        unbounded = dn.endswith("cache") and not dn.endswith("lru_cache")
        if isinstance(dec, ast.Call):
            ms = next((k.value for k in dec.keywords if k.arg == "maxsize"), dec.args[0] if dec.args else None)
            if ms is None:
                cap = 128
            elif isinstance(ms, ast.Constant) and ms.value is None:
                unbounded = True
            elif isinstance(ms, ast.Constant) and isinstance(ms.value, int):
                cap = ms.value
        elif not unbounded:
            cap = 128
        ok = unbounded or (cap is not None and cap >= keyspace)
        run.ob(rule, ok, f"{ref}: memoisation `{norm(dec)}` is identity-stable",
               f"`{norm(dec)}` keeps {cap} result(s) but is keyed by {keyspace} parameter-area classes: a later decode evicts the "
               "synthesised type and re-creates it, so objects of two decodes of the same input (or the decoder's object and the "
               "object rebuilt from its events) are of different types and compare unequal", module=mod, node=dec, func=ref.qual,
               construct=f"@{norm(dec)}")


def p4(run, project):
    """what a memoised function returns is one object shared by all calls with the same arguments: a caller that mutates it
    (mutating method, item store / delete, in-place operator on the name it bound the result to) changes what every later
    decode of that key sees.  Checked on the unmodified source of every module (the normal form inlines pure memoised
    helpers, which is exactly what hides this kind of sharing)."""
    memo = {}
    raws = {}
    for mname, m in project.modules.items():
        try:
            raw = ast.parse(m.source)
        except SyntaxError:
            continue
        raws[mname] = (m, raw)
        for fn in [n for n in ast.walk(raw) if isinstance(n, ast.FunctionDef)]:
            for dec in fn.decorator_list:
                if norm(dec.func if isinstance(dec, ast.Call) else dec) in MEMO:
                    memo.setdefault(fn.name, []).append((m, fn))
    n = 0
    for mname, (m, raw) in raws.items():
        for fn in [x for x in ast.walk(raw) if isinstance(x, ast.FunctionDef)]:
            held = {}
            for a in ast.walk(fn):
                if isinstance(a, ast.Assign) and len(a.targets) == 1 and isinstance(a.targets[0], ast.Name) and isinstance(a.value, ast.Call):
                    cn = a.value.func.attr if isinstance(a.value.func, ast.Attribute) else a.value.func.id if isinstance(a.value.func, ast.Name) else None
                    if cn in memo:
                        held[a.targets[0].id] = cn
            if not held:
                continue
            rebound = {v for v in held if sum(1 for a in ast.walk(fn) if isinstance(a, (ast.Assign, ast.AugAssign, ast.For, ast.With))
                                             and any(isinstance(t, ast.Name) and t.id == v and isinstance(t.ctx, ast.Store) for t in ast.walk(a))) > 1}
            for x in ast.walk(fn):
                v = kind = None
                if isinstance(x, ast.Call) and isinstance(x.func, ast.Attribute) and isinstance(x.func.value, ast.Name) and x.func.attr in MUTATORS:
                    v, kind = x.func.value.id, f".{x.func.attr}()"
                elif isinstance(x, (ast.Assign, ast.AugAssign, ast.Delete)):
                    tg = x.targets if isinstance(x, (ast.Assign, ast.Delete)) else [x.target]
                    for t in tg:
                        if isinstance(t, (ast.Subscript, ast.Attribute)) and isinstance(t.value, ast.Name):
                            v, kind = t.value.id, "item / attribute store"
                        if isinstance(x, ast.AugAssign) and isinstance(t, ast.Name):
                            v, kind = t.id, "in-place operator"
                if v in held and v not in rebound:
                    n += 1
                    run.ob("P4", False, f"{mname.split('.')[-1]}.{fn.name}: result of memoised {held[v]}() is not mutated",
                           f"`{norm(x)[:70]}` mutates `{v}` ({kind}), the object the memoised function {held[v]}() returned: the same object "
                           "is handed to every later call, so a decode changes what the decodes after it (and interleaved ones) see",
                           module=m, node=x, func=fn.name, construct=f"mutation of memoised result {held[v]}")
    run.ob("P4", True, f"no caller mutates the result of a memoised function ({len(memo)} memoised functions, {n} mutations)")


def check(run, project):
    p4(run, project)
    cg = CallGraph(project)
    L = ctx.layout(project)
    entries = []
    for m, q in ENTRIES:
        r = cg.get(m, q)
        if r is None:
            raise AnalysisError(f"C12: entry point {m}.{q} not found")
        entries.append(r)
    reach = cg.reachable(entries)
    run.explanation = ("call graph from the decode/conversion entry points (method calls resolved by name over repo classes), "
                       "effect analysis of every reachable function, capacity check of memoising decorators against the key "
                       "space from L, and (on the unmodified source) no caller mutates what a memoised function returned")
    run.cover(functions_reachable=len(reach), functions=[repr(r) for r in list(reach.values())[:8]])
    run.require(len(reach) >= 40, f"C12: only {len(reach)} reachable functions (call graph broken?)")
    keyspace = sum(1 for c in L.all.values() if c.is_subclass_of(L.TPMS_PARAMS) and c is not L.TPMS_PARAMS)
    def class_def(mod_, name, depth=0):
        r = project.resolve_name(mod_, name)
        if r is None or r[1] is None:
            return None
        cm, cn = r
        for st in cm.tree.body:
            if isinstance(st, ast.ClassDef) and st.name == cn:
                return cm, st
        return None

    def method_def(cls, meth, depth=0):
        cm, cd = cls
        for st in cd.body:
            if isinstance(st, ast.FunctionDef) and st.name == meth:
                return cm, st
        if depth < 5:
            for b in cd.bases:
                if isinstance(b, ast.Name):
                    bc = class_def(cm, b.id)
                    if bc is not None:
                        r = method_def(bc, meth, depth + 1)
                        if r is not None:
                            return r
        return None

    def writes_self(inst, meth, depth=0):
        m = method_def(inst[0], meth)
        if m is None:
            return False
        mm, md = m
        me = md.args.args[0].arg if md.args.args else "self"
        for x in ast.walk(md):
            if isinstance(x, (ast.Attribute, ast.Subscript)) and isinstance(x.ctx, (ast.Store, ast.Del)) and norm(root_of(x)) == me:
                return True
            if isinstance(x, ast.Call) and isinstance(x.func, ast.Attribute) and norm(root_of(x.func.value)) == me:
                if x.func.attr in MUTATORS and x.func.value is not root_of(x.func.value):
                    return True
                if depth < 3 and isinstance(x.func.value, ast.Name) and writes_self(inst, x.func.attr, depth + 1):
                    return True
        return False

    def returns_self(inst, meth):
        m = method_def(inst[0], meth)
        if m is None:
            return False
        me = m[1].args.args[0].arg if m[1].args.args else "self"
        rets = [r for r in ast.walk(m[1]) if isinstance(r, ast.Return) and r.value is not None]
        return bool(rets) and all(norm(r.value) == me for r in rets)

    inst_cache = {}

    def module_instances(mod_):
        """module-level names bound to an instance of a class defined in the repository"""
        if mod_.name not in inst_cache:
            out = {}
            for st in mod_.tree.body:
                if isinstance(st, ast.Assign) and len(st.targets) == 1 and isinstance(st.targets[0], ast.Name) \
                        and isinstance(st.value, ast.Call) and isinstance(st.value.func, ast.Name):
                    cd = class_def(mod_, st.value.func.id)
                    if cd is not None:
                        out[st.targets[0].id] = (cd, st.value.func.id)
            inst_cache[mod_.name] = out
        return inst_cache[mod_.name]

    for ref in reach.values():
        fn, mod = ref.node, ref.mod
        glob = module_level_names(mod)
        instances = module_instances(mod)
        loc = local_names(fn) | enclosing_locals(fn)
        declared = set()
        for n in walk_no_nested(fn):
            if isinstance(n, (ast.Global, ast.Nonlocal)):
                declared |= set(n.names)
                run.ob("P1", False, f"{ref}: {type(n).__name__.lower()} declaration",
                       f"`{norm(n)}`: the function rebinds state that outlives the call", module=mod, node=n, func=ref.qual,
                       construct=norm(n))

        # locals that are merely another name for a module-level object (`c = _SHARED` / `c = _SHARED.method()` returning self)
        aliases = {}
        for n in walk_no_nested(fn):
            if isinstance(n, ast.Assign) and len(n.targets) == 1 and isinstance(n.targets[0], ast.Name):
                v = n.value
                src = v if isinstance(v, ast.Name) else (v.func.value if isinstance(v, ast.Call) and isinstance(v.func, ast.Attribute)
                                                         and isinstance(v.func.value, ast.Name) else None)
                if src is not None and src.id in instances and src.id not in loc - {n.targets[0].id}:
                    if isinstance(v, ast.Name) or returns_self(instances[src.id], v.func.attr):
                        aliases[n.targets[0].id] = src.id

        def is_shared(root):
            """does this receiver root denote a module-level / class-level object?"""
            if isinstance(root, ast.Name) and root.id in aliases:
                return f"module-level object `{aliases[root.id]}` (through the local `{root.id}`)"
            if isinstance(root, ast.Name):
                if root.id in ("cls",) and root.id in loc:
                    return "class object `cls`"
                if root.id in loc and root.id not in declared:
                    return None
                if root.id in glob:
                    return f"module-level name `{root.id}`"
                return None
            if isinstance(root, ast.Call) and call_name(root) == "type":
                return "the object's class (`type(...)`)"
            return None

        n_sites = 0
        for n in walk_no_nested(fn):
            targets = []
            if isinstance(n, ast.Assign):
                targets = n.targets
            elif isinstance(n, (ast.AugAssign, ast.AnnAssign)):
                targets = [n.target]
            elif isinstance(n, ast.Delete):
                targets = n.targets
            for t in targets:
                for sub in ([t] if not isinstance(t, (ast.Tuple, ast.List)) else t.elts):
                    if isinstance(sub, (ast.Attribute, ast.Subscript)):
                        n_sites += 1
                        why = is_shared(root_of(sub))
                        # decorators applied to a freshly synthesised class are allowed to fill it in
                        if why and why.startswith("class object") and ref.qual in ("TPMS_PARAMS.encrypted",):
                            why = "class object `cls`" if norm(root_of(sub)) == "cls" else None
                        run.ob("P1", why is None, f"{ref} L{n.lineno}: store `{norm(sub)[:50]}`",
                               f"writes to {why}: the effect survives this decode and is visible to the next one", module=mod,
                               node=n, func=ref.qual, construct=norm(n).splitlines()[0][:100])
            if isinstance(n, ast.Call):
                f = n.func
                # a method of a module-level instance of a repo class that writes to `self`
                if isinstance(f, ast.Attribute) and isinstance(f.value, ast.Name) and f.attr not in MUTATORS:
                    owner = f.value.id if f.value.id in instances and f.value.id not in loc else aliases.get(f.value.id)
                    if owner is not None and writes_self(instances[owner], f.attr):
                        n_sites += 1
                        run.ob("P1", False, f"{ref} L{n.lineno}: `{norm(f)[:50]}(...)`",
                               f"calls `{f.attr}` on the module-level object `{owner}` (an instance of {instances[owner][1]}), which writes "
                               "to the object's attributes: per-decode state lives in an object shared by all decodes (two decoders "
                               "advanced alternately corrupt each other)", module=mod, node=n, func=ref.qual,
                               construct=norm(n).splitlines()[0][:100])
                if isinstance(f, ast.Attribute) and f.attr in MUTATORS:
                    n_sites += 1
                    why = is_shared(root_of(f.value))
                    run.ob("P1", why is None, f"{ref} L{n.lineno}: `{norm(f)[:50]}(...)`",
                           f"mutates {why}: the effect survives this decode", module=mod, node=n, func=ref.qual,
                           construct=norm(n).splitlines()[0][:100])
                if call_name(n) in ("setattr", "delattr") and n.args:
                    n_sites += 1
                    why = is_shared(root_of(n.args[0]))
                    if why and norm(n.args[0]) == "cls" and ref.qual.startswith(("tpm_dataclass", "tpm_enum", "tpm_bitfield", "numeric")):
                        why = None  # class decorators fill in the class they were handed
                    run.ob("P1", why is None, f"{ref} L{n.lineno}: `{norm(n)[:50]}`", f"sets an attribute of {why}", module=mod,
                           node=n, func=ref.qual, construct=norm(n).splitlines()[0][:100])
        # P3 mutable defaults
        for d in fn.args.defaults + [k for k in fn.args.kw_defaults if k is not None]:
            ok = not isinstance(d, (ast.List, ast.Dict, ast.Set, ast.ListComp, ast.DictComp)) and not (
                isinstance(d, ast.Call) and call_name(d) in ("list", "dict", "set", "defaultdict", "SizeConstraintList", "SizeConstraint"))
            run.ob("P3", ok, f"{ref}: default `{norm(d)[:30]}` is immutable", "a mutable default argument is shared between calls",
                   module=mod, node=d, func=ref.qual, construct=f"default {norm(d)[:60]}")
        check_memo(run, ref, keyspace)
    # P6: a mutable container written in a class body is ONE object shared by all instances; a method that mutates it in
    # place through `self.<name>` changes it for every other instance (every other decode) unless __init__ gives each
    # instance its own (an unconditional `self.<name> = ...` at the top level of __init__)
    n_cls = 0
    for mname, m_ in sorted(project.modules.items()):
        for c_ in [x for x in ast.walk(m_.tree) if isinstance(x, ast.ClassDef)]:
            shared = {}
            for st in c_.body:
                tgt = st.targets[0] if isinstance(st, ast.Assign) and len(st.targets) == 1 else st.target if isinstance(st, ast.AnnAssign) else None
                v_ = getattr(st, "value", None)
                if isinstance(tgt, ast.Name) and v_ is not None and (
                        isinstance(v_, (ast.List, ast.Dict, ast.Set, ast.ListComp, ast.DictComp, ast.SetComp)) or
                        (isinstance(v_, ast.Call) and call_name(v_) in ("list", "dict", "set", "bytearray", "defaultdict", "deque"))):
                    shared[tgt.id] = st
            if not shared:
                continue
            n_cls += 1
            meths = [f_ for f_ in c_.body if isinstance(f_, ast.FunctionDef)]
            init = next((f_ for f_ in meths if f_.name == "__init__"), None)
            own = set()
            if init is not None and init.args.args:
                me = init.args.args[0].arg
                for st in init.body:
                    for t_ in (st.targets if isinstance(st, ast.Assign) else [st.target] if isinstance(st, ast.AnnAssign) and st.value is not None else []):
                        if isinstance(t_, ast.Attribute) and isinstance(t_.value, ast.Name) and t_.value.id == me:
                            own.add(t_.attr)
            for f_ in meths:
                if not f_.args.args or any(norm(d_) in ("staticmethod",) for d_ in f_.decorator_list):
                    continue
                me = f_.args.args[0].arg
                for x in ast.walk(f_):
                    hit = None
                    if isinstance(x, ast.Call) and isinstance(x.func, ast.Attribute) and x.func.attr in MUTATORS \
                            and isinstance(x.func.value, ast.Attribute) and isinstance(x.func.value.value, ast.Name) and x.func.value.value.id == me:
                        hit = x.func.value.attr
                    elif isinstance(x, (ast.Subscript,)) and isinstance(x.ctx, (ast.Store, ast.Del)) and isinstance(x.value, ast.Attribute) \
                            and isinstance(x.value.value, ast.Name) and x.value.value.id == me:
                        hit = x.value.attr
                    if hit in shared and hit not in own:
                        run.ob("P6", False, f"{c_.name}.{f_.name}: in-place change of the class-level `{hit}`",
                               f"`{norm(x)[:60]}` changes `{c_.name}.{hit}`, a mutable object created once in the class body and never "
                               f"replaced per instance in __init__: every instance of {c_.name} (every decode) shares it, so what one "
                               "input leaves behind is seen by the next", module=m_, node=x, func=f"{c_.name}.{f_.name}",
                               construct=f"{c_.name}.{hit} shared mutable")
    run.ob("P6", True, f"class-level mutable containers ({n_cls} classes) are never mutated through an instance that does not own a copy")
    from .shared import value_keyed_memo
    value_keyed_memo(run, project, "P7", what="the result for one input depends on which inputs were seen before")
    # P3: module-level generator objects in reachable modules
    for mname in sorted({r.mod.name for r in reach.values()}):
        mod = project.module(mname)
        for st in mod.tree.body:
            if isinstance(st, ast.Assign) and isinstance(st.value, (ast.GeneratorExp,)):
                run.ob("P3", False, f"{mname}: module-level generator", "a generator object at module level carries state across calls",
                       module=mod, node=st, func="<module>", construct=norm(st)[:80])
            if isinstance(st, ast.Assign) and isinstance(st.value, ast.Call) and call_name(st.value) in ("iter",):
                run.ob("P3", False, f"{mname}: module-level iterator", "an iterator at module level carries state across calls",
                       module=mod, node=st, func="<module>", construct=norm(st)[:80])
    run.ob("P2", keyspace >= 200, f"key space of the encrypted-layout cache = {keyspace} parameter areas", "parameter areas not found")
    run.floor("P1", 20, "store / mutation sites")
    # P5: a stream decode is its messages decoded one by one: nothing the response decode is given may be left over from an
    # earlier command/response pair of the same stream (the loop-carried-argument rule of C09-S2, re-used here)
    from ..report import RuleView
    from . import c09
    c09.check(RuleView(run, "S2", "P5"), project)
    # P8 (= C09-S3): results of separate decodes and of stream decodes are comparable only if the stream picks the encrypted
    # layout for a response exactly when the separate decode (told so by its caller) does: the predicate the stream asks
    # answers for the command's own session area, with the response direction's bit
    try:
        c09.check(RuleView(run, "S3", "P8"), project)
    except AnalysisError as ex:
        run.info(f"P8: the stream's encryption predicate could not be followed ({ex}); not judged here (C09 reports it)")
    # P10 (= C01-F): the synthesised encrypted layout is chosen for an area exactly when a session of that message asks for
    # it in that direction (command: decrypt, response: encrypt) - else the decode of one message and the object rebuilt from
    # its events (which goes by the area's field names) disagree about the type
    from . import c01 as _c01
    from ..roles import MarshalRoles as _MR10
    try:
        _c01.framing(RuleView(run, "F", "P10"), _MR10(project), ctx.layout(project))
    except AnalysisError as ex:
        run.info(f"P10: the message walkers could not be followed ({ex}); not judged here (C01 reports it)")
    # P9 (= C15-F1): "the same input with the same arguments": the arguments reach the decoder through every front-end on
    # every branch (a branch that drops them decodes with the defaults, and the result no longer compares equal to the
    # decode of the same message with the same arguments through another branch)
    from . import c15
    try:
        c15.f1_f2(RuleView(run, "F1", "P9"), project)
    except AnalysisError as ex:
        run.info(f"P9: the front-ends could not be followed ({ex}); not judged here (C15 reports it)")

