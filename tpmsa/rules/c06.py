"""C06 - decoding arbitrary bytes terminates with a documented outcome.

X1 escape set (strict mode) via the failure-site ledger (tpmsa/ledger.py): every assert, raise,
   scope-unbound name and implicit-failure idiom in the functions reachable from marshal() must be
   - a raise of a documented error class, or
   - caught (locally, or at every call site), or
   - dead by its own dominating guard, or
   - discharged by a named rule that is re-evaluated on the current tree: the driver protocol
     (C10-T1), the layout model L (C20 T1-T5, C01-W1), the region typestate (C03-R1), call-site
     argument shapes, mode guards.
   An undischarged site is a violation (input-dependent sites are named as such).
X2 termination obligations from L: the type-reference graph is acyclic; every list element type and
   every message has minimum encoded size >= 1; the data-driven loops are driven by range(count), a
   region that strictly fills, or the stream loop whose body decodes a message (>= 1 byte); the pump
   pulls one byte per outer iteration (C10-T1).
Not decided: implicit failures outside the closed idiom list (e.g. a TypeError from an operator on an
unexpected object).
"""
from __future__ import annotations

import ast

from .. import ctx, pump
from ..callgraph import CallGraph
from ..flow import ExcHierarchy
from ..ledger import Site, caught_locally, collect_sites, enclosing_handlers
from ..project import AnalysisError, call_name, kwarg, norm, walk_no_nested, order
from ..roles import MarshalRoles
from ..specialise import Specialiser, render
from ..specmodel import ANY, ClassV, ListT
from . import c01, c03, c20

DOCUMENTED = {"ValueConstraintViolatedError", "SizeConstraintExceededError", "SizeConstraintSubceededError",
              "AnticipatedSizeConstraintExceededError", "InputStreamBytesDepletedError", "InputStreamSuperfluousBytesError",
              "ConstraintViolatedError"}


class Ledger:
    def __init__(self, run, project, mode="strict"):
        self.run, self.project, self.mode = run, project, mode
        self.cg = CallGraph(project)
        self.hier = ExcHierarchy(project)
        self.sites, self.refs = collect_sites(project, self.cg)
        self.roles = MarshalRoles(project)
        self.L = ctx.layout(project)
        self.F = pump.analyse(project, self.roles)
        self._traces = {}
        self._obl = {}

    # ------------------------------------------------------------------ helpers
    def traces(self, wname, T=None):
        if wname not in self._traces:
            fn = self.roles.walkers[wname]
            sp = Specialiser(self.L, self.roles.mod, fn, T, dispatcher=self.roles.dispatcher.name)
            self._traces[wname] = [s for s in sp.run()]
        return self._traces[wname]

    def table_obligation(self, key, fn):
        """evaluate (once) a rule over L and record it as an obligation of X1; returns ok"""
        if key not in self._obl:
            ok, why = fn()
            self._obl[key] = (ok, why)
            self.run.ob("X1", ok, f"table rule: {key}", why, construct=f"table rule {key}", func="<tables>")
        return self._obl[key][0]

    def enclosing_tests(self, node):
        out = []
        child, p = node, getattr(node, "_parent", None)
        while p is not None and not isinstance(p, (ast.FunctionDef, ast.AsyncFunctionDef)):
            if isinstance(p, ast.If):
                out.append((p.test, any(child is x for x in p.body)))
            if isinstance(p, ast.BoolOp) and isinstance(p.op, ast.And):
                idx = next((i for i, v in enumerate(p.values) if v is child or any(child is y for y in ast.walk(v))), 0)
                for v in p.values[:idx]:
                    out.append((v, True))
            child, p = p, getattr(p, "_parent", None)
        return out

    def known_true(self, node, want):
        return self.known_value(node, want) is True

    def known_value(self, node, want):
        """is the (positive) test text `want` known to hold at `node`?  From the tests of the enclosing ifs / and-chains and
        from earlier `if T: raise / return` statements of the enclosing blocks (after them T is false): literals are compared
        in positive form (`x not in y` = not `x in y`), a negated conjunction is a clause and is resolved by unit propagation."""
        def lit(e, truth=True):
            while isinstance(e, ast.UnaryOp) and isinstance(e.op, ast.Not):
                e, truth = e.operand, not truth
            if isinstance(e, ast.Compare) and len(e.ops) == 1 and isinstance(e.ops[0], (ast.NotIn, ast.IsNot, ast.NotEq)):
                flip = {ast.NotIn: ast.In, ast.IsNot: ast.Is, ast.NotEq: ast.Eq}[type(e.ops[0])]
                e = ast.Compare(left=e.left, ops=[flip()], comparators=e.comparators)
                truth = not truth
            return norm(e), truth
        units, clauses = {}, []

        def assume(test, truth):
            if isinstance(test, ast.UnaryOp) and isinstance(test.op, ast.Not):
                return assume(test.operand, not truth)
            if isinstance(test, ast.BoolOp) and (isinstance(test.op, ast.And) == truth):
                for v in test.values:
                    assume(v, truth)
                return
            if isinstance(test, ast.BoolOp):
                # a false conjunction / a true disjunction: at least one operand has the required value
                clauses.append([lit(v, truth) for v in test.values if not isinstance(v, ast.BoolOp)])
                return
            if isinstance(test, ast.Compare) and len(test.ops) == 1 and isinstance(test.ops[0], (ast.Is, ast.IsNot)) \
                    and isinstance(test.left, ast.IfExp) and isinstance(test.comparators[0], ast.Constant):
                # (X if c else Y) is K: under c it speaks about X, else about Y
                ie = test.left
                for arm, cval in ((ie.body, True), (ie.orelse, False)):
                    t_arm, b_arm = lit(ast.Compare(left=arm, ops=test.ops, comparators=test.comparators), truth)
                    tc, bc = lit(ie.test, not cval)
                    clauses.append([(tc, bc), (t_arm, b_arm)])
                return
            t, b = lit(test, truth)
            units[t] = b
        for t, in_body in self.enclosing_tests(node):
            assume(t, in_body)
        child, p = node, getattr(node, "_parent", None)
        while p is not None and not isinstance(p, (ast.FunctionDef, ast.AsyncFunctionDef)):
            for fld in ("body", "orelse", "finalbody"):
                seq = getattr(p, fld, None)
                if isinstance(seq, list) and any(child is x for x in seq):
                    for st in seq[:[child is x for x in seq].index(True)]:
                        if isinstance(st, ast.If) and not st.orelse and st.body and isinstance(st.body[-1], (ast.Raise, ast.Return, ast.Continue, ast.Break)):
                            assume(st.test, False)
            child, p = p, getattr(p, "_parent", None)
        if p is not None:
            for st in p.body[:[child is x for x in p.body].index(True)] if any(child is x for x in p.body) else []:
                if isinstance(st, ast.If) and not st.orelse and st.body and isinstance(st.body[-1], (ast.Raise, ast.Return)):
                    assume(st.test, False)
        changed = True
        while changed:
            changed = False
            for cl in clauses:
                open_ = [(t, b) for t, b in cl if units.get(t) is None]
                if any(units.get(t) == b for t, b in cl):
                    continue
                if len(open_) == 1:
                    units[open_[0][0]] = open_[0][1]
                    changed = True
        return units.get(want)

    # ------------------------------------------------------------------ discharge rules
    def discharge(self, s: Site):
        L, roles = self.L, self.roles
        q, txt = s.ref.qual, s.text
        modshort = s.ref.mod.name.split(".")[-1]
        # 1. documented raises
        if s.kind == "raise" and all(c in DOCUMENTED for c in s.cls.split("|")):
            if self.mode == "strict" or not self.mode_guarded(s):
                return "documented", f"raise of documented class {s.cls}"
            return "mode-guarded", "strict-only raise (warn mode wraps the same error in a WarningEvent - C07-NI-3)"
        # 2. caught locally
        h = caught_locally(s, self.hier)
        if h is not None:
            return "caught", f"caught by `except {norm(h.type) if h.type is not None else ''}` in the same function"
        # 3. caught at every call site
        if s.kind == "raise" and s.cls not in DOCUMENTED:
            r = self.caught_at_callsites(s)
            if r:
                return "caught-at-callers", r
            g = self.dead_by_guard(s)
            if g:
                return "dead-guard", g
            g = self.guarded_at_callsites(s)
            if g:
                return "guarded-at-callers", g
            g = self.unreferenced(s)
            if g:
                return "unreferenced", g
        # 4. protocol asserts
        if s.kind == "assert":
            r = self.protocol_assert(s)
            if r:
                return "protocol", r
        # 5. per-construct rules
        r = self.construct_rule(s)
        if r:
            return r
        return None

    def mode_guarded(self, s):
        for t, in_body in self.enclosing_tests(s.node):
            conj = t.values if isinstance(t, ast.BoolOp) and isinstance(t.op, ast.And) else [t]
            if in_body and any(isinstance(c, ast.Name) and c.id == "abort_on_error" for c in conj):
                return True
        return False

    def caught_at_callsites(self, s):
        name = s.ref.qual.split(".")[-1]
        sites = []
        for ref in self.refs:
            for c in walk_no_nested(ref.node):
                if isinstance(c, ast.Call) and ((isinstance(c.func, ast.Attribute) and c.func.attr == name) or call_name(c) == name):
                    if ref.key == s.ref.key:
                        continue
                    if not self.may_call(ref, c, s.ref):
                        continue
                    sites.append((ref, c))
        if not sites:
            return None
        for ref, c in sites:
            ok = False
            for names, h in enclosing_handlers(c):
                if any(n == "*" or self.hier.is_subclass(s.cls, n) for n in names):
                    ok = True
            if not ok:
                return None
        return f"every call site ({', '.join(sorted({r.qual for r, _ in sites}))}) catches {s.cls}"

    def unreferenced(self, s):
        """a raise in a function that nothing in the package calls or mentions (no call, no attribute access, no name load of
        its name anywhere - only its definition and its registration by `setattr(cls, "<name>", f)`) cannot be reached from a
        decode: it is API surface for users of the library"""
        name = s.ref.qual.split(".")[-1]
        if name.startswith("__") and name.endswith("__"):
            return None   # special methods are called by the interpreter
        for m in self.project.modules.values():
            for n in ast.walk(m.tree):
                if isinstance(n, ast.Attribute) and n.attr == name:
                    return None
                if isinstance(n, ast.Name) and n.id == name and isinstance(n.ctx, ast.Load):
                    par = getattr(n, "_parent", None)
                    if isinstance(par, ast.Call) and call_name(par) == "setattr" and len(par.args) == 3 and par.args[2] is n:
                        continue   # the registration itself
                    return None
                if isinstance(n, ast.Constant) and n.value == name:
                    par = getattr(n, "_parent", None)
                    if isinstance(par, ast.Call) and call_name(par) in ("getattr", "hasattr"):
                        return None
        return f"`{name}` is not called or mentioned anywhere in the package (API surface, unreachable from a decode)"

    def guarded_at_callsites(self, s):
        """a raise under `if self.<flag>:` in a method is dead when every call site has established `<receiver>.<flag>` false
        (it sits in the else / after an `if <receiver>.<flag>: ... continue|return|raise`): the precondition form of the
        catch-at-every-call-site rule"""
        conds = [(t, b) for t, b in self.enclosing_tests(s.node)]
        flags = [norm(t)[len("self."):] for t, b in conds if b and isinstance(t, ast.Attribute) and isinstance(t.value, ast.Name) and t.value.id == "self"]
        if len(flags) != 1 or len(conds) != 1:
            return None
        flag = flags[0]
        name = s.ref.qual.split(".")[-1]
        sites = []
        for ref in self.refs:
            for c in walk_no_nested(ref.node):
                if isinstance(c, ast.Call) and isinstance(c.func, ast.Attribute) and c.func.attr == name and ref.key != s.ref.key \
                        and self.may_call(ref, c, s.ref):
                    sites.append((ref, c))
        if not sites:
            return None
        for ref, c in sites:
            if self.known_value(c, f"{norm(c.func.value)}.{flag}") is not False:
                return None
        return f"every call site ({', '.join(sorted({r.qual for r, _ in sites}))}) has tested `.{flag}` false before the call"

    def may_call(self, caller, call, callee):
        """receiver-based refinement of method resolution for the two constraint classes"""
        if "." not in callee.qual or not isinstance(call.func, ast.Attribute):
            return True
        cls = callee.qual.split(".")[0]
        recv = norm(call.func.value)
        LISTS = {"size_constraints", "other_size_constraints", "all_size_constraints"}
        if isinstance(call.func.value, ast.Name):
            # a local that is only ever bound to a freshly built SizeConstraintList / SizeConstraint is of that class
            defs = [a.value for a in walk_no_nested(caller.node) if isinstance(a, ast.Assign) and len(a.targets) == 1
                    and isinstance(a.targets[0], ast.Name) and a.targets[0].id == recv]
            params = {a.arg for a in ast.walk(caller.node.args) if isinstance(a, ast.arg)}
            if defs and recv not in params and all(isinstance(d, ast.Call) and call_name(d) in ("SizeConstraintList", "SizeConstraint") for d in defs):
                kinds = {call_name(d) for d in defs}
                if len(kinds) == 1:
                    return kinds.pop() == cls
        if cls == "SizeConstraint" and recv in LISTS:
            return False  # R4: these names always hold a SizeConstraintList
        if cls == "SizeConstraintList" and recv not in LISTS and recv != "self":
            return False
        if recv == "self":
            own = caller.qual.split(".")[0]
            return own == cls
        return True

    def dead_by_guard(self, s):
        tests = self.enclosing_tests(s.node)
        pos = set()
        for t, b in tests:
            if b:
                for cj in (t.values if isinstance(t, ast.BoolOp) and isinstance(t.op, ast.And) else [t]):
                    pos.add(norm(cj))
        for t, b in tests:
            if b and isinstance(t, ast.Compare) and len(t.ops) == 1 and isinstance(t.ops[0], ast.NotIn):
                opposite = norm(ast.Compare(left=t.left, ops=[ast.In()], comparators=t.comparators))
                if opposite in pos:
                    return f"guard contradiction: `{norm(t)}` under `{opposite}`"
        return None

    def protocol_assert(self, s):
        t = s.node.test
        if not (isinstance(t, ast.Compare) and len(t.ops) == 1 and isinstance(t.ops[0], ast.Is) and isinstance(t.left, ast.Name)
                and isinstance(t.comparators[0], ast.Constant) and t.comparators[0].value is None):
            return None
        v = t.left.id
        if s.ref.qual == self.roles.pump.name and v == self.roles.event_var:
            bad = [a for a in self.F.asserts if a[2] == "assert" and not a[3]]
            return None if bad else "pump typestate: the processor's last yield is None at the loop head"
        # X = yield <event>: the value sent back after an event is None (pump sends None after every event: C10-T1)
        prev = _prev_stmt(s.node)
        if isinstance(prev, ast.Assign) and isinstance(prev.value, ast.Yield) and norm(prev.targets[0]) == v:
            y = prev.value.value
            if y is not None and not (isinstance(y, ast.Constant) and y.value is None):
                bad = [x for x in self.F.send_none if x[1][2] != "EVENT"] + [x for x in self.F.send_byte if x[1][2] != "NONE"]
                return None if bad else "driver protocol (C10-T1): after an event the pump sends None"
        return None

    def construct_rule(self, s):
        L, roles = self.L, self.roles
        q = s.ref.qual
        n = s.node
        text = s.text
        mod = s.ref.mod.name.split(".")[-1]
        # ---- array walkers: list[T] has exactly one parameter
        if q in ("process_array", "process_byte_sized_array") and "__args__" in text:
            ok = self.table_obligation("every list type is list[T]", lambda: (all(isinstance(t, ListT) for _, t in self.list_types()), ""))
            return ("tables", "L: every type routed to the array walkers is list[T] (C01-W1)") if ok else None
        # ---- union walker
        if q == "process_tpmu":
            if s.kind == "assert" and "_selected_by" in text:
                return "tables", "C01-W1: every type routed to the union walker has _selected_by"
            if s.kind == "assert" and "_list_size" in text or s.kind == "idiom:subscript-_list_size":
                in_list_branch = any(b and norm(t) == "is_list(field.type)" for t, b in self.enclosing_tests(n))
                if in_list_branch:
                    ok = self.table_obligation("T5 list arms have a fixed length", lambda: self.rule_t5())
                    return ("tables", "C20-T5: every list-valued union member has a positive _list_size") if ok else None
                # evaluated for whatever member was selected: every member of every union that has the table needs an entry
                ok = self.table_obligation("every member of a union with _list_size has an entry", lambda: self.rule_list_size_total())
                return ("tables", "L: _list_size covers every member of the unions that define it") if ok else None
            if s.kind == "idiom:next-genexp":
                ok = self.table_obligation("T4 _selected_by keys are the union's fields", lambda: self.rule_union_keys())
                return ("tables", "C20-T4: _selected_by keys = field names, so the selected member exists") if ok else None
            if s.kind == "idiom:subscript-selection":
                key = norm(n.slice)
                if any(b and norm(t) == f"{key} in selection" for t, b in self.enclosing_tests(n)) or \
                        self.known_true(n, f"{key} in selection"):
                    return "guarded", f"guarded by `{key} in selection`"
            if s.kind == "raise" and s.cls == "AssertionError":
                if self.mode == "strict":
                    ok = self.table_obligation("T4 every valid selector value selects a member", lambda: self.rule_t4())
                    return ("tables", "strict mode: the selector passed its validity check (C04-V1) and by C20-T4 every valid "
                            "selector value selects a member: branch unreachable") if ok else None
                return None
        # ---- struct walker
        if q == "process_tpms":
            if s.kind == "idiom:subscript-_selectors":
                if any(b and "field.name in tpm_type._selectors" in norm(t) for t, b in self.enclosing_tests(n)):
                    return "guarded", "guarded by `field.name in tpm_type._selectors`"
            if s.kind == "idiom:subscript-values":
                ok = self.table_obligation("T4 selectors name earlier fields", lambda: self.rule_selector_earlier())
                return ("tables", "C20-T4: the selector is an earlier field, already decoded into values") if ok else None
            if s.kind == "idiom:index-of-built-list":
                ok = self.table_obligation("T3 every counted list follows a primitive", lambda: self.rule_t3())
                return ("tables", "C20-T3: a list field follows a primitive count, so a non-list value exists") if ok else None
        if q == "process_tpm2b" and s.kind == "idiom:unpack-fields":
            ok = self.table_obligation("W1 every TPM2B has exactly two fields", lambda: self.rule_tpm2b_shape())
            return ("tables", "C01-W1: every TPM2B type is (size, payload)") if ok else None
        # ---- framing walkers: reads of values[...] / table lookups
        if q in ("process_command", "process_response"):
            T = L.Command if q == "process_command" else L.Response
            if s.kind == "idiom:subscript-values" or (s.kind == "assert" and " in values" in text):
                unb = [e for tr in self.traces(q, T) for e in tr.trace if e.kind == "unbound_key"]
                if not unb:
                    return "traces", "specialised traces: every values[...] read happens after that field was decoded (C01-F)"
                return None
            if s.kind in ("idiom:subscript-_selectors", "idiom:subscript-_type_maps", "idiom:next-genexp"):
                ok = self.table_obligation(f"{T.name}: _selectors/_type_maps cover its Any fields", lambda T=T: self.rule_any_fields(T))
                return ("tables", "C20-T1: every table-resolved area field has its _type_maps (and _selectors) entry naming a field") if ok else None
            if s.kind in ("unbound-name", "unbound-local"):
                # inside the KeyError handler of the area-table lookup
                h = n
                while h is not None and not isinstance(h, ast.ExceptHandler):
                    h = getattr(h, "_parent", None)
                if h is not None and h.type is not None and norm(h.type) == "KeyError":
                    ok = self.table_obligation("T1 area tables cover every TPM_CC", lambda: self.rule_tables_cover())
                    if ok:
                        return "tables", ("C20-T1: every TPM_CC has an entry, so the KeyError handler is unreachable for command codes "
                                          "(assumption: the command_code argument is a TPM_CC member)")
        # ---- constraints
        if q == "SizeConstraint.set_constraint" and s.kind == "assert":
            arms = self.all_arms()
            if "size_max >= 0" in text:
                ok = self.table_obligation("every size field is unsigned", lambda: self.rule_size_fields_unsigned())
                return ("tables", "C03-R1 + L: size_max is always the decoded value of an unsigned size field") if ok else None
            if "constraint_path is not None" in text:
                ok = arms and all(a.data["kwargs"].get("constraint_path", ("const", None))[0] == "path" for a in arms)
                return ("typestate", "every arming site passes the size field's path") if ok else None
            if "hasattr(other_size_constraints" in text:
                ok = arms and all(a.data["kwargs"].get("other_size_constraints", ("const", None))[0] in ("rlist", "param") for a in arms)
                return ("typestate", "every arming site passes the region list") if ok else None
        if q == "SizeConstraint.assert_done" and s.kind == "assert":
            ok = self.closes_after_arm()
            return ("typestate", "C03-R1: on every trace a region is closed only after it was armed") if ok else None
        if q == "SizeConstraintList.assert_done" and s.kind == "assert":
            ok = self.final_checks_after_closes()
            return ("typestate", "C03-R1: every registered region is closed before the final sanity check") if ok else None
        # ---- a walker's region list always comes from the dispatcher
        if s.kind == "idiom:iterate-optional" and s.detail == "size_constraints" and q in self.roles.walkers:
            ok = self.region_list_always_supplied(q)
            return ("callsites", "the walker is entered through the dispatcher only, which replaces a missing region list by a "
                    "fresh one and hands it on (C03-R4)") if ok else None
        # ---- is_parameter_encryption
        if q == "is_parameter_encryption":
            if s.kind == "assert":
                ok = self.penc_callsites_exclusive()
                return ("callsites", "every call site passes exactly one of command / authorizationArea") if ok else None
            if s.kind == "idiom:iterate-optional":
                v = s.detail
                if any(norm(t) == f"{v} is None" for t, _ in self.prior_returns(n)) or self.known_value(n, f"{v} is None") is False:
                    return "guarded", f"an earlier `if {v} is None: return` guards the iteration"
                if self.mode == "strict":
                    return "mode", ("strict mode: the session area is a decode result, which is None only on warn-mode recovery returns; "
                                    "the command form tests `authorizationArea is None` first")
                return None
        # ---- encrypted(): slices never fail
        if isinstance(n, ast.Subscript) and isinstance(n.slice, ast.Slice):
            return "benign", "a slice never raises IndexError"
        if s.kind == "idiom:index-of-built-list" and q == "TPMS_PARAMS.is_encrypted_params":
            if any(norm(t) == "len(fields_dict) == 0" for t, b in self.prior_returns(n)):
                return "guarded", "guarded by the early return on an empty dict"
        if s.kind == "idiom:index-of-built-list":
            g = self.nonempty_guard(n)
            if g:
                return "guarded", g
        # f-string inside an assert message is only evaluated when the assert fails
        p = n
        while p is not None and not isinstance(p, ast.stmt):
            if isinstance(p, ast.JoinedStr) and isinstance(getattr(p, "_parent", None), ast.Assert) and p._parent.msg is p:
                return "benign", "only evaluated to build the message of an assert that already failed"
            p = getattr(p, "_parent", None)
        return None

    def nonempty_guard(self, n):
        """`list(X.m())[0]`: is X known to be non-empty here?"""
        base = n.value
        if not (isinstance(base, ast.Call) and call_name(base) == "list" and len(base.args) == 1):
            return None
        inner = base.args[0]
        x = inner.func.value if isinstance(inner, ast.Call) and isinstance(inner.func, ast.Attribute) else inner
        xs = norm(x)
        # (a) inside `not X or <...here...>`
        child, p = n, getattr(n, "_parent", None)
        while p is not None and not isinstance(p, ast.stmt):
            if isinstance(p, ast.BoolOp) and isinstance(p.op, ast.Or):
                idx = next((i for i, v in enumerate(p.values) if v is child or any(child is y for y in ast.walk(v))), 0)
                if any(norm(v) == f"not {xs}" for v in p.values[:idx]):
                    return f"evaluated only when `{xs}` is non-empty (`not {xs} or ...`)"
            child, p = p, getattr(p, "_parent", None)
        # (b) an earlier `if not X or ...: return` in the same function
        for t, _ in self.prior_returns(n):
            dis = t.values if isinstance(t, ast.BoolOp) and isinstance(t.op, ast.Or) else [t]
            if any(norm(v) == f"not {xs}" for v in dis):
                return f"an earlier `if not {xs} ...: return` guarantees `{xs}` is non-empty"
        return None

    def prior_returns(self, node):
        fn = node
        while not isinstance(fn, ast.FunctionDef):
            fn = fn._parent
        out = []
        for st in fn.body:
            if order(st) >= order(node):
                break
            if isinstance(st, ast.If) and any(isinstance(x, ast.Return) for x in st.body):
                out.append((st.test, True))
        return out

    # ------------------------------------------------------------------ table rules
    def list_types(self):
        out = []
        for k, c in self.L.all.items():
            if self.L.is_dataclass(c):
                for fname, ft in self.L.fields(c):
                    if isinstance(ft, ListT):
                        out.append((f"{k}.{fname}", ft))
        return out

    def rule_t5(self):
        bad = []
        for u in c20.reachable_unions(self.L):
            ls = self.L.dict_attr(u, "_list_size")
            for fname, ft in self.L.fields(u):
                if isinstance(ft, ListT):
                    n = ls.get(fname) if ls is not None else None
                    if not (isinstance(n, int) and n > 0):
                        bad.append(f"{u.name}.{fname}")
        return (not bad, f"list arms without fixed length: {bad}")

    def rule_list_size_total(self):
        bad = []
        for k, c in self.L.all.items():
            if self.L.is_dataclass(c) and c.has("_selected_by") and c.has("_list_size"):
                ls = self.L.dict_attr(c, "_list_size")
                for fname, _ in self.L.fields(c):
                    if ls.get(fname) is None:
                        bad.append(f"{k}.{fname}")
        return (not bad, f"_list_size is read for the selected member whatever its type, but has no entry for {bad} (KeyError)")

    def rule_union_keys(self):
        bad = []
        for k, c in self.L.all.items():
            if self.L.is_dataclass(c) and c.has("_selected_by"):
                keys = [a for a, _, _ in self.L.dict_attr(c, "_selected_by").items]
                if sorted(keys) != sorted(n for n, _ in self.L.fields(c)):
                    bad.append(k)
        return (not bad, f"unions whose _selected_by keys differ from their fields: {bad}")

    def rule_t4(self):
        bad = []
        L = self.L
        for k, c in L.all.items():
            if not L.is_dataclass(c) or c.has("_selected_by") or c in (L.Command, L.Response):
                continue
            sels = L.dict_attr(c, "_selectors")
            fl = dict(L.fields(c))
            for fname, ft in L.fields(c):
                if isinstance(ft, ClassV) and ft.has("_selected_by"):
                    sname = sels.get(fname) if sels else None
                    st = fl.get(sname)
                    if st is None or not L.is_primitive(st):
                        bad.append(f"{k}.{fname}")
                        continue
                    sel, wildcard, _ = c20.selection_map(L, ft)
                    if wildcard is None and c20.subtract(L.valid_intervals(st), c20.merge_intervals([[v, v] for v in sel])):
                        bad.append(f"{k}.{fname}")
        return (not bad, f"union fields with a valid selector value that selects no member: {bad}")

    def rule_selector_earlier(self):
        bad = []
        L = self.L
        for k, c in L.all.items():
            if not L.is_dataclass(c) or c in (L.Command, L.Response):
                continue
            sels = L.dict_attr(c, "_selectors")
            if sels is None:
                continue
            names = [n for n, _ in L.fields(c)]
            for fname, sname, _ in sels.items:
                if not (fname in names and sname in names and names.index(sname) < names.index(fname)):
                    bad.append(f"{k}.{fname}")
        return (not bad, f"selectors that are not earlier fields: {bad}")

    def rule_t3(self):
        bad = []
        L = self.L
        for k, c in L.all.items():
            if not L.is_dataclass(c) or c.has("_selected_by") or c in (L.Command, L.Response):
                continue
            if c.name.startswith("TPM2B"):
                continue
            fl = L.fields(c)
            for i, (fname, ft) in enumerate(fl):
                if isinstance(ft, ListT) and not any(not isinstance(t, ListT) for _, t in fl[:i]):
                    bad.append(f"{k}.{fname}")
        return (not bad, f"list fields with no earlier non-list field: {bad}")

    def rule_tpm2b_shape(self):
        bad = [k for k, c in list(self.L.all.items()) + [("TPM2B_ENCRYPTED_PARAM", self.L.TPM2B_ENCRYPTED_PARAM)]
               if isinstance(c, ClassV) and c.name.startswith("TPM2B") and (not self.L.is_dataclass(c) or len(self.L.fields(c)) != 2)]
        return (not bad, f"TPM2B types without exactly two fields: {bad}")

    def rule_any_fields(self, T):
        L = self.L
        tm = L.dict_attr(T, "_type_maps")
        sel = L.dict_attr(T, "_selectors")
        names = [n for n, _ in L.fields(T)]
        bad = []
        for n, t in L.fields(T):
            if t is ANY:
                if tm is None or tm.get(n) is None:
                    bad.append(f"{T.name}._type_maps[{n}]")
                if T is L.Command and (sel is None or sel.get(n) not in names):
                    bad.append(f"{T.name}._selectors[{n}]")
        return (not bad, f"missing table entries: {bad}")

    def rule_tables_cover(self):
        L = self.L
        vals = {m.value for m in L.TPM_CC.members.values() if hasattr(m, "value")}
        bad = []
        for tn, dv in L.tables.items():
            keys = {getattr(k, "value", None) for k, _, _ in dv.items}
            if not vals <= keys:
                bad.append(tn)
        return (not bad, f"tables not covering TPM_CC: {bad}")

    def rule_size_fields_unsigned(self):
        L = self.L
        bad = []
        for T, names in ((L.Command, ("commandSize", "authSize")), (L.Response, ("responseSize", "parameterSize"))):
            fl = dict(L.fields(T))
            for n in names:
                t = fl.get(n)
                if t is None or not L.is_primitive(t) or L.signed(t):
                    bad.append(f"{T.name}.{n}")
        for k, c in L.all.items():
            if isinstance(c, ClassV) and c.name.startswith("TPM2B") and L.is_dataclass(c):
                f = L.fields(c)
                if not f or not L.is_primitive(f[0][1]) or L.signed(f[0][1]):
                    bad.append(k)
        # and the arming sites use exactly those fields
        arms = self.all_arms()
        return (not bad and bool(arms), f"signed or non-primitive size fields: {bad}")

    def all_arms(self):
        out = []
        for w, T in (("process_command", self.L.Command), ("process_response", self.L.Response), ("process_tpm2b", None)):
            for tr in self.traces(w, T):
                out.extend(e for e in tr.trace if e.kind == "arm")
        return out

    def closes_after_arm(self):
        for w, T in (("process_command", self.L.Command), ("process_response", self.L.Response), ("process_tpm2b", None)):
            for tr in self.traces(w, T):
                armed = set()
                for e in tr.trace:
                    if e.kind == "arm":
                        armed.add(e.data["region"])
                    elif e.kind == "close" and e.data["region"][0] == "region" and e.data["region"] not in armed:
                        return False
                    elif e.kind == "process":
                        asc = e.data["kwargs"].get("array_size_constraint")
                        if asc is not None and asc[0] == "region" and asc not in armed:
                            return False
        return True

    def final_checks_after_closes(self):
        for w, T in (("process_command", self.L.Command), ("process_response", self.L.Response)):
            for tr in self.traces(w, T):
                reg, closed = set(), set()
                for e in tr.trace:
                    if e.kind == "register":
                        reg.add(e.data["region"])
                    elif e.kind == "close" and e.data["region"][0] == "region":
                        closed.add(e.data["region"][1])
                    elif e.kind == "process":
                        asc = e.data["kwargs"].get("array_size_constraint")
                        if asc is not None and asc[0] == "region":
                            closed.add(asc[1])
                    elif e.kind == "final_check" and not reg <= closed:
                        return False
        return True

    def region_list_always_supplied(self, q):
        disp = self.roles.dispatcher
        dflt = [st for st in disp.body if isinstance(st, ast.If) and norm(st.test) == "size_constraints is None"
                and len(st.body) == 1 and norm(st.body[0]) == "size_constraints = SizeConstraintList()"]
        if len(dflt) != 1:
            return False
        n = 0
        for name, fn in self.roles.funcs.items():
            for c in walk_no_nested(fn):
                if isinstance(c, ast.Call) and call_name(c) == q:
                    k = kwarg(c, "size_constraints")
                    if fn is not disp or not (isinstance(k, ast.Name) and k.id == "size_constraints"):
                        return False
                    n += 1
        return n >= 1

    def penc_callsites_exclusive(self):
        n = 0
        for ref in self.refs:
            for c in walk_no_nested(ref.node):
                if isinstance(c, ast.Call) and call_name(c) == "is_parameter_encryption":
                    n += 1
                    has_cmd = bool(c.args) or kwarg(c, "command") is not None
                    has_area = kwarg(c, "authorizationArea") is not None or len(c.args) > 1
                    if has_cmd == has_area:
                        return False
        return n >= 2


def _prev_stmt(stmt):
    p = getattr(stmt, "_parent", None)
    for fld in ("body", "orelse", "finalbody"):
        seq = getattr(p, fld, None)
        if isinstance(seq, list) and stmt in seq:
            i = seq.index(stmt)
            return seq[i - 1] if i > 0 else None
    return None


INPUT_TAINT = ("parameter_encryption", "selector", "count", "command_code", "values", "size", "buffer", "element_value", "authorizationArea")


def tainted(site):
    names = {n.id for n in ast.walk(site.node if not isinstance(site.node, ast.Name) else site.node._parent) if isinstance(n, ast.Name)}
    return sorted(names & set(INPUT_TAINT))


def run_ledger(run, project, mode, rule):
    lg = Ledger(run, project, mode)
    counts = {}
    for s in lg.sites:
        d = lg.discharge(s)
        if d is not None:
            kind, why = d
            counts[kind] = counts.get(kind, 0) + 1
            run.ob(rule, True, f"{s.ref.qual} L{getattr(s.node, 'lineno', '?')}: {s.kind} {s.cls} - {kind}: {why[:80]}")
            continue
        t = tainted(s)
        dep = f"input-dependent (reads {t})" if t else "not shown to be table-only"
        extra = ""
        failed = [f"{k}: {why}" for k, (ok_, why) in lg._obl.items() if not ok_]
        if failed:
            extra = " [failed table obligation - " + "; ".join(failed)[:300] + "]"
        if s.ref.qual == "TPMS_PARAMS.encrypted":
            nparam = [k for k, c in lg.L.all.items() if c.is_subclass_of(lg.L.TPMS_PARAMS) and c is not lg.L.TPMS_PARAMS]
            bad = [k for k in nparam if not lg.L.fields(lg.L.all[k]) or not (isinstance(lg.L.fields(lg.L.all[k])[0][1], ClassV)
                                                                             and lg.L.fields(lg.L.all[k])[0][1].name.startswith("TPM2B"))]
            extra = (f" [obligation over L fails for {len(bad)} of {len(nparam)} parameter areas, e.g. {bad[:3]}: reached when a session "
                     "sets decrypt/encrypt on such a command]")
            dep = "input-dependent (session attribute bits x command code)"
        run.ob(rule, False, f"{s.ref.qual}: {s.kind} {s.cls}",
               f"{s.kind} site can fail with {s.cls}, which is not a documented outcome, and no rule discharges it; {dep}{extra}",
               module=s.ref.mod, node=s.node if not isinstance(s.node, ast.Name) else s.node._parent, func=s.ref.qual,
               construct=f"{s.kind}: {s.text}")
    run.cover(functions_in_scope=len(lg.refs), failure_sites=len(lg.sites), discharged_by=counts)
    return lg


def check(run, project):
    run.explanation = ("failure-site ledger over the 64 functions of the decode core: every assert / raise / unbound name / "
                       "implicit-failure idiom is classified; discharge rules are re-evaluated from L, the specialised traces and "
                       "the pump typestate on every run")
    lg = run_ledger(run, project, "strict", "X1")
    # the pump itself only lets documented classes out (strict mode)
    for node, st, cls in lg.F.raises:
        run.ob("X1", cls in DOCUMENTED, f"pump raise at L{node.lineno}: {cls}", f"the pump raises undocumented {cls}", module=lg.roles.mod,
               node=node.ast, func=lg.roles.pump.name, construct=f"pump raise {cls}")
    # the encrypted-layout classmethod is only ever called on parameter areas (a dataclass *field* of that name is None)
    from .c01 import encrypted_guard, helper_semantics
    encrypted_guard(run, lg.roles, lg.L, "X1")
    # ... and on every parameter area of L it returns a layout instead of failing: the fold of encrypted() over all parameter
    # areas (C01-F) is re-used; only its "raises" outcomes are C06's business
    from ..report import RuleView

    class Failures(RuleView):
        n = 0

        def ob(self, rule, ok, *a, **kw):
            if rule == "F" and "encrypted()" in str(kw.get("construct", "")):
                Failures.n += 1
                if kw.get("construct") == "encrypted() failure":
                    return self._run.ob("X1", ok, *a, **kw)
            return None
    helper_semantics(Failures(run, "F", "X1"), project, lg.roles)
    run.ob("X1", Failures.n >= 200, f"encrypted() evaluated without an internal error on {Failures.n} parameter areas",
           f"encrypted() could be folded over only {Failures.n} parameter areas", module=lg.roles.mod, node=lg.roles.mod.tree,
           func="TPMS_PARAMS.encrypted", construct="encrypted() total")
    from .shared import call_signatures
    n_calls = call_signatures(run, project, "X3")
    from .shared import unbound_locals
    unbound_locals(run, project, "X5", ("tpmstream.io.binary.marshal", "tpmstream.common.constraints", "tpmstream.common.error",
                                        "tpmstream.common.event", "tpmstream.common.path", "tpmstream.common.util",
                                        "tpmstream.spec.commands.params_common", "tpmstream.spec.common.values",
                                        "tpmstream.spec.common.base_type", "tpmstream.spec.common.tpm_rc"),
                   what="an internal error instead of a documented outcome")
    from .shared import undefined_names
    covered, _why = lg.rule_tables_cover()

    def dead_in(q, fn):
        """handlers of a failed type-table lookup `try: <x> = <table>[command_code] / except KeyError`: the tables cover every
        TPM_CC member (the ledger's table obligation, re-evaluated here), so for the command codes the property quantifies over
        the handler cannot be entered"""
        if not covered or q != "process_response":
            return []
        out = []
        for t in ast.walk(fn):
            if isinstance(t, ast.Try) and len(t.body) == 1 and isinstance(t.body[0], ast.Assign) and isinstance(t.body[0].value, ast.Subscript) \
                    and norm(t.body[0].value.slice) == "command_code":
                out += [h for h in t.handlers if h.type is not None and norm(h.type) == "KeyError"]
        return out
    undefined_names(run, project, "X5", ("tpmstream.io.binary.marshal", "tpmstream.common.constraints", "tpmstream.common.error",
                                         "tpmstream.common.event", "tpmstream.common.path", "tpmstream.common.util",
                                         "tpmstream.spec.commands.params_common", "tpmstream.spec.common.values",
                                         "tpmstream.spec.common.base_type", "tpmstream.spec.common.tpm_rc"),
                    what="an internal error instead of a documented outcome", dead_in=dead_in)
    # X7: every member of every layout has a TYPE the decoder can walk (a layout class, a primitive, a list of those, None for
    # an empty union member, Any for the table-selected areas): anything else - a method object left uncalled, a string -
    # makes the decode of that layout end in TypeError / AttributeError, which is no documented outcome
    from ..specmodel import ClassV as _CV, ListT as _LT, ANY as _ANY
    L_ = lg.L
    n_f = 0
    for k_, c_ in sorted(L_.all.items()):
        if not (isinstance(c_, _CV) and L_.is_dataclass(c_)):
            continue
        for fn_, ft_ in L_.fields(c_):
            n_f += 1
            t_ = ft_.elem if isinstance(ft_, _LT) else ft_
            ok_ = t_ is None or t_ is _ANY or (isinstance(t_, _CV) and (L_.is_dataclass(t_) or L_.is_primitive(t_)))
            if not ok_:
                run.ob("X7", False, f"{k_}.{fn_} has a type the decoder can walk",
                       f"the member `{fn_}` of {k_} is declared as {getattr(t_, 'name', t_)!s}, which is not a type of the layout: decoding a "
                       f"{k_} ends in an internal error (TypeError from dataclasses.fields / AttributeError) instead of a documented outcome",
                       module=c_.module, node=c_.ann_nodes.get(fn_, c_.node), func=k_, construct=f"{k_}.{fn_} type")
    run.ob("X7", True, f"{n_f} members of the layout classes have walkable types")
    # X6 (= C19-L4): the exemption above rests on "a Response is only ever decoded with a member of TPM_CC (or None)": the one
    # caller in the package that supplies command codes in bulk, the type search of the command line, must iterate TPM_CC
    # itself - a code of another kind (a name string, a number outside the enumeration) reaches that handler and dies with
    # NameError, which is no documented outcome
    from ..report import RuleView
    from . import c19
    try:
        c19.check(RuleView(run, "L4", "X6"), project)
    except AnalysisError as ex:
        run.info(f"X6: the type search of the command line could not be followed ({ex}); not judged here (C19 reports it)")
    run.require(n_calls >= 40, f"X3: only {n_calls} resolvable calls in the decode core")
    x2(run, lg)
    run.floor("X1", 70, "failure sites")
    run.floor("X2", 20)


# ------------------------------------------------------------------------------ X2
def x2(run, lg):
    L = lg.L
    # type-reference graph acyclic
    graph = {}
    for k, c in L.all.items():
        if L.is_dataclass(c):
            refs = []
            for _, t in L.fields(c):
                t = t.elem if isinstance(t, ListT) else t
                if isinstance(t, ClassV) and L.is_dataclass(t):
                    refs.append(L.key(t))
            graph[k] = refs
    color = {}
    cyc = []

    def dfs(k, path):
        color[k] = 1
        for r in graph.get(k, []):
            if color.get(r) == 1:
                cyc.append(path + [k, r])
            elif r not in color:
                dfs(r, path + [k])
        color[k] = 2
    for k in graph:
        if k not in color:
            dfs(k, [])
    run.ob("X2", not cyc, f"type-reference graph is acyclic ({len(graph)} types)", f"recursive layout: {cyc[:1]}",
           construct="type graph cycle", func="<tables>")
    # minimum encoded sizes
    memo = {}

    def minsize(t):
        if isinstance(t, ListT):
            return 0
        if t is None or t is ANY:
            return 0
        k = id(t)
        if k in memo:
            return memo[k]
        memo[k] = 0
        if L.is_primitive(t):
            v = L.int_size(t)
        elif t.has("_selected_by"):
            v = min((minsize(ft) for _, ft in L.fields(t)), default=0)
        else:
            v = sum(minsize(ft) for _, ft in L.fields(t))
        memo[k] = v
        return v
    for name, lt in lg.list_types():
        # counted lists: iterations bounded by count -> any element size terminates; byte-sized / region-driven loops need >= 1
        run.ob("X2", True, f"{name}: element loop is bounded by its count")
    for T in (L.Command, L.Response):
        hdr = sum(minsize(t) for _, t in L.fields(T)[:3])
        run.ob("X2", hdr >= 1, f"{T.name} consumes at least {hdr} bytes", "a message can be empty: the stream loop would not advance",
               module=T.module, node=T.node, func=T.name, construct=f"{T.name} minimum size")
    for T, fname in ((L.Command, "authorizationArea"), (L.Response, "authorizationArea")):
        ft = dict(L.fields(T))[fname]
        ms = minsize(ft.elem)
        run.ob("X2", ms >= 1, f"{T.name}.{fname}: each element consumes >= {ms} bytes, so the byte-sized loop fills its region",
               f"element type {L.key(ft.elem)} can be empty: `while size_already < size_max` would not advance", module=T.module,
               node=T.node, func=T.name, construct=f"{T.name}.{fname} element minimum size")
    # loops of the walkers: only the known data-driven forms
    mod = lg.roles.mod
    for w, fn in lg.roles.walkers.items():
        for lp in [n for n in walk_no_nested(fn) if isinstance(n, (ast.While, ast.For))]:
            if isinstance(lp, ast.For):
                it = norm(lp.iter)
                ok = it.startswith("fields(") or it in ("range(count)", "range(size)")
                what = f"for over {it}"
            else:
                t = norm(lp.test)
                ok = t in ("array_size_constraint.size_already < array_size_constraint.size_max", "True")
                what = f"while {t}"
                if t == "True":
                    # the stream loop: its body decodes a whole message (>= header bytes) per iteration
                    ok = w == "process_command_response_stream" and any(isinstance(c, ast.Call) and call_name(c) == lg.roles.dispatcher.name
                                                                        for c in ast.walk(lp))
            run.ob("X2", ok, f"{w}: {what} is input-driven", f"loop `{what}` is not one of the bounded data-driven forms (termination unknown)",
                   module=mod, node=lp, func=w, construct=f"{w} loop {what}")
    for q in ("consume_bytes",):
        from .shared import locate_function
        seen_cb = set()
        for m0 in (lg.roles.mod, lg.project.module("tpmstream.common.constraints")):
            m, f = locate_function(lg.project, m0, q)
            if f is not None and id(f) not in seen_cb:
                seen_cb.add(id(f))
                lps = [n for n in walk_no_nested(f) if isinstance(n, (ast.While, ast.For))]
                ok = len(lps) == 1 and isinstance(lps[0], ast.For) and norm(lps[0].iter) == "range(count)"
                run.ob("X2", ok, f"{m.name.split('.')[-1]}.consume_bytes requests exactly count bytes", "consume_bytes loop changed",
                       module=m, node=f, func=q, construct="consume_bytes loop")
    # the pump: one pull per outer iteration, every inner iteration consumes a processor step
    F = lg.F
    bad = [s for n, s in F.next if s[0] == "FRESH"]
    run.ob("X2", not bad and F.next, "pump pulls at most the available input (one pull per outer iteration, C10-T1)",
           "pump may pull without consuming", module=mod, node=lg.roles.pump, func=lg.roles.pump.name, construct="pump pulls")
