"""C17 - attribute words decompose into fields that partition their bits.

M1 (exhaustive, from L): for every TPMA_* type the masks are non-zero, pairwise disjoint and cover
   2**(8*_int_size)-1.
M2 (shape): the accessor returns `obj._value & mask` shifted down by the mask's trailing zeros;
   the pretty printer shows, per attribute, the value's bit where the mask has a 1 and '.' elsewhere,
   both padded to 8*_int_size, one row per attribute from `attributes()` (= all masks).
Not decided: the shift loop's result and the dotted strings for concrete values.
"""
from __future__ import annotations

import ast

from .. import ctx, paths
from ..pattern import canon, find, is_name, match
from ..project import AnalysisError, call_name, norm
from ..specmodel import ClassV, FuncV

VALUES = "tpmstream.spec.common.values"
PRETTY = "tpmstream.io.pretty.unmarshal"


def bitfield_types(L):
    out = []
    for k, c in L.struct_types.items():
        bf = next((b for b in c.mro() if b.masks is not None), None)
        if bf is None:
            continue
        if isinstance(c.lookup("attributes"), FuncV):
            continue  # overrides the generic decomposition (TPM_RC: C18)
        out.append((k, c, bf))
    return out


def check(run, project):
    L = ctx.layout(project)
    run.explanation = ("M1 evaluates the mask tables of all attribute types reconstructed by E1 (exhaustive); "
                       "M2 checks the accessor and the bit-row printer by def-use patterns.")
    run.trusted_base = ["CPython ast", "E1 model of tpm_bitfield (guards G1,G5,G7)"]
    from . import guards
    guards.check(run, project, L)
    m1(run, L)
    m2_accessor(run, project, L)
    m2_rows(run, project, L)
    run.floor("M1", 12 * 3, "mask obligations")


def m1(run, L):
    types = bitfield_types(L)
    if len(types) < 12:
        raise AnalysisError(f"M1: only {len(types)} attribute types found, expected >= 12")
    for k, c, bf in types:
        width = 8 * L.int_size(c)
        full = (1 << width) - 1
        seen = 0
        node = bf.node
        for name, mask in bf.masks.items():
            run.ob("M1", mask != 0, f"{k}.{name} non-zero", "mask is zero (field has no bits)", module=bf.module,
                   node=node, func=k, construct=f"{k}.{name}")
            run.ob("M1", mask & ~full == 0, f"{k}.{name} inside the {width}-bit word",
                   f"mask {mask:#x} has bits outside the {width}-bit word", module=bf.module, node=node, func=k,
                   construct=f"{k}.{name} width")
            clash = seen & mask
            if clash:
                others = [n for n, m_ in bf.masks.items() if n != name and m_ & mask]
                run.ob("M1", False, f"{k}.{name} disjoint", f"mask {mask:#x} overlaps {others} in bits {clash:#x}",
                       module=bf.module, node=node, func=k, construct=f"{k}.{name} overlap")
            else:
                run.ob("M1", True, f"{k}.{name} disjoint")
            seen |= mask
        hole = full & ~seen
        run.ob("M1", hole == 0, f"{k} masks cover all {width} bits",
               f"bits {hole:#0{width // 4 + 2}x} of the {width}-bit word belong to no field", module=bf.module, node=node,
               func=k, construct=f"{k} coverage")
    run.cover(attribute_types=[k for k, _, _ in types])


def m2_accessor(run, project, L):
    """Bit.__get__ folded over every mask of every attribute type of L with the register value left unknown: the accessor is
    evaluated on a value whose bits are symbols (minieval.SymVec); bitwise operations with the (known) mask and shifts by
    amounts computed from the mask are exact, so the result is a bit pattern over the symbols.  Required: bit j of the
    result is bit (j + tz) of the value where the mask has that bit, 0 elsewhere (tz = trailing zeros of the mask) - for
    all values at once.  On the class (obj is None) the accessor gives cls(value=mask, name=name).  No idiom is matched:
    loops, closed forms, helpers and pre-computed shifts are all just evaluated."""
    from ..minieval import Interp, NeedBit, Raised, SymVec, TypeRef
    mod = project.module(VALUES)
    from .guards import bitfield_roles, members_source
    R = bitfield_roles(mod)
    f, init = R["get"], R["init"]
    n = 0
    bad_reported = set()
    for k, c, bf in bitfield_types(L):
        width = 8 * L.int_size(c)
        for name, mask in bf.masks.items():
            if mask == 0:
                continue  # M1 reports it
            made = []

            def cls(*a_, **kw):
                made.append((a_, kw))
                return ("instance-of-cls", len(made) - 1)
            selfobj = TypeRef("Bit", attrs={})
            tz = (mask & -mask).bit_length() - 1
            leaves = []   # (assumed bits, result, required)

            def case(assume):
                """evaluate with the bits in `assume` fixed; where the code branches on a further bit, split on it"""
                if len(leaves) > 4096:
                    raise AnalysisError(f"M2: the accessor of {k}.{name} distinguishes more than 4096 classes of values")
                vec = SymVec([assume.get(i, ("v", i)) if i < width else 0 for i in range(SymVec.WIDTH)])
                want = SymVec([(assume.get(j + tz, ("v", j + tz)) if j + tz < width and (mask >> (j + tz)) & 1 else 0)
                               for j in range(SymVec.WIDTH)])
                it = Interp({"cls": cls}, module_tree=mod.tree, max_steps=200000)
                selfobj.attrs.clear()
                try:
                    if init is not None:
                        given = {"name": name, "mask": mask, "cls": cls}
                        it.call(init, [selfobj] + [given[r_] for r_ in R["init_args"]], {k_: given[r_] for k_, r_ in R["init_kwargs"].items()})
                    else:
                        selfobj.attrs.update(_name=name, _mask=mask)
                    got = it.call(f, [selfobj, TypeRef("register", attrs={"_value": vec.concrete() if vec.concrete() is not None else vec, "_name": None,
                                                                        "_details": None, "_int_size": width // 8, "__partial__": True}), None])
                except NeedBit as nb:
                    if nb.index is None or nb.index in assume:
                        raise AnalysisError(f"M2: cannot split the evaluation of the accessor of {k}.{name}")
                    case({**assume, nb.index: 0})
                    case({**assume, nb.index: 1})
                    return
                except Raised as r:
                    got = f"raises {r.cls}"
                leaves.append((assume, got, want))
            case({})
            n += 1
            bad = [(a_, g_, w_) for a_, g_, w_ in leaves if not (g_ == w_ or (isinstance(g_, int) and not isinstance(g_, bool)
                                                                          and w_.concrete() == g_))]
            ok = not bad
            key = "instance"
            if ok or key not in bad_reported:
                if not ok:
                    bad_reported.add(key)
                a_, got, want = min(bad, key=lambda x_: len(x_[0])) if bad else ({}, None, None)
                where = ("for values with " + ", ".join(f"bit {i} = {b_}" for i, b_ in sorted(a_.items()))) if a_ else "for a value v"
                run.ob("M2", ok, f"{k}.{name}: accessor gives the field's bits right-aligned ({len(leaves)} value class(es))",
                       f"for mask {mask:#x} ({k}.{name}) the accessor gives {got!r} {where}, required {want!r} = (v & mask) >> {tz}: "
                       "the field is not masked, or not shifted down by the mask's trailing zeros (e.g. by the position of its highest "
                       "bit, or by an amount that depends on the field's content, so that fields lose or misplace their low bits)",
                       module=mod, node=f, func="Bit.__get__", construct="Bit.__get__ field value")
            # (instances the accessor made when it was constructed - a named mask prepared once - stay valid)
            try:
                # read on the class: obj is None, the owner class is handed in as objtype
                got = Interp({"cls": cls}, module_tree=mod.tree, max_steps=200000).call(f, [selfobj, None, cls])
            except Raised as r:
                got = f"raises {r.cls}"
            okc = isinstance(got, tuple) and got[:1] == ("instance-of-cls",) and len(made) >= 1 and \
                (made[got[1]] == ((), {"value": mask, "name": name}) or made[got[1]] == ((mask, name), {})
                 or made[got[1]] == ((mask,), {"name": name}))
            if okc or "class" not in bad_reported:
                if not okc:
                    bad_reported.add("class")
                run.ob("M2", okc, f"{k}.{name}: on the class the accessor is the named mask",
                       f"{k}.{name} read on the class gives {got!r} built from {made}; required cls(value={mask:#x}, name={name!r})",
                       module=mod, node=f, func="Bit.__get__", construct="Bit.__get__ on class")
    from .shared import value_keyed_memo
    value_keyed_memo(run, project, "M3", what="an attribute word is printed with the rows of another attribute type")
    run.require(n >= 40, f"M2: accessor folded over only {n} masks")
    run.ob("M2", True, "every mask attribute is replaced by its accessor, built from the attribute's name and mask (located by role)")
    # attributes(): every public non-routine attribute of type(self)
    a = mod.functions().get("tpm_bitfield.decorator.attributes")
    if a is None:
        raise AnalysisError("M2: attributes() of tpm_bitfield not found")
    # what attributes() returns is built from the public non-routine members: a generator over inspect.getmembers(type(self))
    # filtered by the predicate, or a table built from those members when the type was decorated
    rets = [r for r in ast.walk(a) if isinstance(r, ast.Return) and r.value is not None]
    ok = False
    for r in rets:
        e = r.value
        for _ in range(6):
            if isinstance(e, ast.Attribute) and norm(e.value) in ("type(self)", "cls", "self.__class__"):
                # a table kept on the class: what the decorator stores there
                sets_ = [x for x in ast.walk(R["dec"]) if isinstance(x, ast.Assign) and len(x.targets) == 1 and isinstance(x.targets[0], ast.Attribute)
                         and norm(x.targets[0].value) == "cls" and x.targets[0].attr == e.attr]
                if len(sets_) != 1:
                    break
                e = sets_[0].value
                continue
            if isinstance(e, ast.Call) and call_name(e) in ("sorted", "list", "tuple") and e.args:
                e = e.args[0]
            elif isinstance(e, ast.Name):
                defs = [x for fn_ in (a, R["dec"]) for x in ast.walk(fn_) if isinstance(x, ast.Assign) and len(x.targets) == 1
                        and isinstance(x.targets[0], ast.Name) and x.targets[0].id == e.id]
                defs = list({id(x): x for x in defs}.values())
                if len(defs) != 1:
                    break
                own = any(x is defs[0] for x in ast.walk(a))
                if not own and isinstance(defs[0].value, ast.GeneratorExp):
                    # a generator object made once when the type is decorated is empty after its first traversal
                    run.ob("M2", False, "attributes() can be called repeatedly",
                           f"attributes() iterates `{e.id}`, a generator expression that is created once at decoration time: the first "
                           "call consumes it, every later call of attributes() for that type yields no mask (no bit rows are printed from "
                           "the second attribute word on)", module=mod, node=defs[0], func="attributes", construct="attributes() single-use generator")
                e = defs[0].value
        if isinstance(e, (ast.GeneratorExp, ast.ListComp)) and len(e.generators) == 1 and isinstance(e.generators[0].target, ast.Name) \
                and isinstance(e.generators[0].iter, ast.Name) and isinstance(R["loop"].iter, ast.Name) \
                and e.generators[0].iter.id == R["loop"].iter.id and not e.generators[0].ifs and R["init"] is not None:
            # one entry per installed accessor: `o.<attr>` where the accessor's __init__ binds <attr> to the named mask
            # cls(value=mask, name=name) (the accessors are built for exactly the public non-routine members: G5)
            o_ = e.generators[0].target.id
            ini = R["init"]
            me = ini.args.args[0].arg
            ipar = [a_.arg for a_ in ini.args.args][1:]
            given = dict(zip(ipar, R["init_args"]))
            given.update(R["init_kwargs"])
            byrole = {v_: k_ for k_, v_ in given.items()}
            if isinstance(e.elt, ast.Attribute) and norm(e.elt.value) == o_ and {"name", "mask", "cls"} <= set(byrole):
                want_ = (f"{byrole['cls']}(value={byrole['mask']}, name={byrole['name']})", f"{byrole['cls']}(name={byrole['name']}, value={byrole['mask']})",
                         f"{byrole['cls']}({byrole['mask']}, {byrole['name']})", f"{byrole['cls']}({byrole['mask']}, name={byrole['name']})")
                binds = [st_ for st_ in ini.body if isinstance(st_, ast.Assign) and len(st_.targets) == 1 and isinstance(st_.targets[0], ast.Attribute)
                         and norm(st_.targets[0].value) == me and st_.targets[0].attr == e.elt.attr]
                if len(binds) == 1 and norm(binds[0].value) in want_:
                    ok = True
        if isinstance(e, (ast.GeneratorExp, ast.ListComp)) and len(e.generators) == 1:
            g = e.generators[0]
            src = members_source([a, R["dec"]], g.iter)
            tv = [norm(x) for x in g.target.elts] if isinstance(g.target, ast.Tuple) else []
            if src == "all" and len(tv) == 2 and [norm(c) for c in g.ifs] == [f"_is_public_non_funtion_attr({tv[0]}, {tv[1]})"] \
                    and norm(e.elt) == tv[1]:
                ok = True
            if src == "filtered" and len(tv) == 2 and not g.ifs and norm(e.elt) in (f"cls(value={tv[1]}, name={tv[0]})",
                                                                                   f"cls(name={tv[0]}, value={tv[1]})"):
                ok = True
    run.ob("M2", ok, "attributes() enumerates every mask", "attributes() no longer yields all public mask attributes",
           module=mod, node=a, func="attributes", construct="attributes() members")
    # mask objects define no ordering: sorting them needs a key
    has_lt = any(isinstance(c_, ast.Call) and call_name(c_) == "setattr" and len(c_.args) >= 2 and isinstance(c_.args[1], ast.Constant)
                 and c_.args[1].value in ("__lt__", "__gt__") for c_ in ast.walk(R["dec"]))
    for c_ in [c_ for c_ in ast.walk(a) if isinstance(c_, ast.Call) and call_name(c_) == "sorted"]:
        run.ob("M2", has_lt or any(k.arg == "key" for k in c_.keywords), "attributes(): masks are sorted by a key",
               f"`{norm(c_)[:70]}` sorts the mask objects themselves, which define no ordering: attributes() raises TypeError and no "
               "attribute word can be printed", module=mod, node=c_, func="attributes", construct="attributes() sort key")
    # ... and the decorator hands the type back with attributes() on it (the printer asks `hasattr(value, "attributes")` to
    # decide whether a value gets bit rows): on every completing path of the decorator, unless the class brings its own
    dec = R["dec"]
    cparam = dec.args.args[0].arg
    n_reg = 0
    for p in paths.summarise(mod, dec):
        if p.end == "raise":
            continue
        own = p.truth(f"hasattr({cparam}, 'attributes')")
        reg = [1 for k, e, _ in p.effects if (k == "call" and paths.text(e) == f"setattr({cparam}, 'attributes', {a.name})") or
               (k == "store" and isinstance(e, ast.Assign) and norm(e.targets[0]) == f"{cparam}.attributes" and norm(e.value) == a.name)]
        n_reg += 1
        lab = " & ".join(("" if v else "not ") + a_ for a_, v, _ in p.cond if not a_.startswith(("loop@", "try@")))[:80] or "always"
        run.ob("M2", bool(reg) or own is True, f"decorator [{lab}]: the type gets attributes()",
               f"on the path [{lab}] the decorator does not attach attributes() to a type that has none: `hasattr(value, 'attributes')` is "
               "false for its values and the printer shows no bit rows for them", module=mod, node=p.node or dec, func="tpm_bitfield.decorator",
               construct="attributes() registration")
        run.ob("M2", p.end == "return" and p.value_text() == cparam, f"decorator [{lab}]: returns the decorated type",
               f"on the path [{lab}] the decorator ends with `{p.end} {p.value_text()}`: the name of the attribute type is bound to that "
               "instead of the type", module=mod, node=p.node or dec, func="tpm_bitfield.decorator", construct="decorator result")
    run.require(n_reg >= 1, "M2: no completing path through the tpm_bitfield decorator")


def m2_rows(run, project, L):
    """pretty_attrs folded over every attribute type of L with the register value unknown: the generator is run (by the mini
    interpreter, nothing of the repository executes) on an event whose value is a word of that type with symbolic bits; it
    must yield exactly one row per mask, in the order attributes() gives them, at `event.path + PathNode(mask name)`, with no
    type and no hex column, and a text of 8*size characters that shows the value's bit where the mask has a one and a dot
    elsewhere - for all values at once.  How the text is built (zip of padded strings, arithmetic with shifts and rjust,
    helpers) is not looked at."""
    from ..minieval import Imprecise, Interp, NeedBit, Raised, SymStr, SymVec, TypeRef
    mod = project.module(PRETTY)
    f = mod.functions().get("pretty_attrs")
    if f is None:
        raise AnalysisError("M2: pretty_attrs not found")

    n = 0
    for k, c, bf in bitfield_types(L):
        size = L.int_size(c)
        width = 8 * size
        masks = sorted(bf.masks.items(), key=lambda kv: kv[1])
        rows = fold_pretty_attrs(project, k, size, SymVec.unknown(width), [(nm, m_, None) for nm, m_ in masks])
        want = []
        for nm, m_ in masks:
            text_ = [("v", i) if (m_ >> i) & 1 else "." for i in range(width - 1, -1, -1)]
            want.append(("row", None, RowPath((("node", nm),)), None, SymStr(text_) if any(isinstance(x, tuple) for x in text_) else "".join(text_)))
        n += 1
        ok = rows == want
        why = ""
        if not ok:
            if isinstance(rows, str):
                why = rows
            elif len(rows) != len(want):
                why = f"{len(rows)} rows for {len(want)} masks"
            else:
                j = next(i for i, (a_, b_) in enumerate(zip(rows, want)) if a_ != b_)
                why = f"row {j} ({masks[j][0]}, mask {masks[j][1]:#x}) is {rows[j]!r}, required {want[j]!r}"
        run.ob("M2", ok, f"{k}: one row per mask, value bits under mask ones and dots elsewhere",
               f"the bit rows of a {k} word are wrong: {why} (v = a bit of the value, . = a dot; a row must show exactly the bits of its "
               "mask, at their positions in the word, padded to the full width)", module=mod, node=f, func="pretty_attrs",
               construct="pretty_attrs rows")
    run.require(n >= 12, f"M2: bit rows folded over only {n} attribute types")


class RowPath:
    def __init__(self, parts):
        self.parts = tuple(parts)

    def __add__(self, o):
        return RowPath(self.parts + (o,))
    __truediv__ = __add__

    def __eq__(self, o):
        return isinstance(o, RowPath) and self.parts == o.parts

    def __hash__(self):
        return hash(self.parts)

    def __repr__(self):
        return "path" + "".join(f"/{x}" for x in self.parts)


def fold_pretty_attrs(project, k, size, value, masks):
    """the rows pretty_attrs yields for an event whose value is a `size`-byte word of type `k` with the bits `value` and the
    attributes `masks` = [(name, mask, details)], as ("row", type, path, hex, text) tuples - or a str that says why there are
    none (evaluated by the mini interpreter from the source)"""
    from ..minieval import Imprecise, Interp, NeedBit, Raised, TypeRef
    mod = project.module(PRETTY)
    f = mod.functions().get("pretty_attrs")
    if f is None:
        raise AnalysisError("M2: pretty_attrs not found")
    P = RowPath
    if True:
        attrs = [TypeRef("mask", attrs={"_value": m_, "_name": nm, "_details": d_, "_int_size": size, "__partial__": True})
                 for nm, m_, d_ in masks]
        # (a runtime word is built with name=None, details=None: it has the attribute, empty)
        word = TypeRef(k, attrs={"_value": value, "_int_size": size, "_name": None, "_details": None, "__partial__": True,
                                 "attributes": lambda attrs=attrs: list(attrs)})
        event = TypeRef("event", attrs={"value": word, "path": P(()), "type": TypeRef(k), "__partial__": True})
        fmt_fn = mod.functions().get("format")
        fpar = [a_.arg for a_ in fmt_fn.args.args] if fmt_fn is not None else ["tpm_type", "path", "binary", "value"]
        fdefs = {}
        if fmt_fn is not None:
            for nm_, d_ in zip(fpar[len(fpar) - len(fmt_fn.args.defaults):], fmt_fn.args.defaults):
                fdefs[nm_] = d_.value if isinstance(d_, ast.Constant) else None

        def fake_format(*a, _fpar=fpar, _fdefs=fdefs, **kw):
            vals = dict(_fdefs)
            vals.update(dict(zip(_fpar, a)))
            vals.update(kw)
            return ("row",) + tuple(vals.get(x) for x in _fpar)
        g_ = {"format": fake_format, "PathNode": lambda name=None, **kw: ("node", name if name is not None else kw.get("name"))}
        it = Interp(g_, module_tree=mod.tree, max_steps=400000)
        from ..minieval import bind_project
        bind_project(it, project, mod, g_)   # (row helpers of other project modules are evaluated from their source as well)
        try:
            it.call(f, [event])
            rows = list(it.yields)
        except Raised as r:
            rows = f"raises {r.cls}"
        except NeedBit:
            rows = "a row that depends on the value in another way than showing its bits"
        except Imprecise as e_:
            rows = f"the row text has no fixed shape: {e_}"
        return rows
