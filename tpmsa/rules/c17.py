"""C17 - attribute words decompose into fields that partition their bits.

M1 (exhaustive, from L): for every TPMA_* type the masks are non-zero, pairwise disjoint and cover
   2**(8*_int_size)-1.
M2 (shape): the accessor returns `obj._value & mask` shifted down by the mask's trailing zeros;
   the pretty printer shows, per attribute, the value's bit where the mask has a 1 and '.' elsewhere,
   both padded to 8*_int_size, one row per attribute from `attributes()` (= all masks).
Not decided: the shift loop's result and the dotted strings for concrete values.
"""
from __future__ import annotations

import ast

from .. import ctx
from ..pattern import canon, find, is_name, match
from ..project import AnalysisError, norm
from ..specmodel import ClassV, FuncV

VALUES = "tpmstream.spec.common.values"
PRETTY = "tpmstream.io.pretty.unmarshal"


def bitfield_types(L):
    out = []
    for k, c in L.struct_types.items():
        bf = next((b for b in c.mro() if b.masks is not None), None)
        if bf is None:
            continue
        if isinstance(c.lookup("attributes"), FuncV):
            continue  # overrides the generic decomposition (TPM_RC: C18)
        out.append((k, c, bf))
    return out


def check(run, project):
    L = ctx.layout(project)
    run.explanation = ("M1 evaluates the mask tables of all attribute types reconstructed by E1 (exhaustive); "
                       "M2 checks the accessor and the bit-row printer by def-use patterns.")
    run.trusted_base = ["CPython ast", "E1 model of tpm_bitfield (guards G1,G5,G7)"]
    from . import guards
    guards.check(run, project, L)
    m1(run, L)
    m2_accessor(run, project)
    m2_rows(run, project)
    run.floor("M1", 12 * 3, "mask obligations")


def m1(run, L):
    types = bitfield_types(L)
    if len(types) < 12:
        raise AnalysisError(f"M1: only {len(types)} attribute types found, expected >= 12")
    for k, c, bf in types:
        width = 8 * L.int_size(c)
        full = (1 << width) - 1
        seen = 0
        node = bf.node
        for name, mask in bf.masks.items():
            run.ob("M1", mask != 0, f"{k}.{name} non-zero", "mask is zero (field has no bits)", module=bf.module,
                   node=node, func=k, construct=f"{k}.{name}")
            run.ob("M1", mask & ~full == 0, f"{k}.{name} inside the {width}-bit word",
                   f"mask {mask:#x} has bits outside the {width}-bit word", module=bf.module, node=node, func=k,
                   construct=f"{k}.{name} width")
            clash = seen & mask
            if clash:
                others = [n for n, m_ in bf.masks.items() if n != name and m_ & mask]
                run.ob("M1", False, f"{k}.{name} disjoint", f"mask {mask:#x} overlaps {others} in bits {clash:#x}",
                       module=bf.module, node=node, func=k, construct=f"{k}.{name} overlap")
            else:
                run.ob("M1", True, f"{k}.{name} disjoint")
            seen |= mask
        hole = full & ~seen
        run.ob("M1", hole == 0, f"{k} masks cover all {width} bits",
               f"bits {hole:#0{width // 4 + 2}x} of the {width}-bit word belong to no field", module=bf.module, node=node,
               func=k, construct=f"{k} coverage")
    run.cover(attribute_types=[k for k, _, _ in types])


def m2_accessor(run, project):
    mod = project.module(VALUES)
    f = mod.functions().get("tpm_bitfield.decorator.Bit.__get__")
    if f is None:
        raise AnalysisError("M2: Bit.__get__ not found in values.py")
    obj = f.args.args[1].arg
    # instance path: bits = obj._value & self._mask (either order)
    cand = find(f, f"{obj}._value & self._mask") + find(f, f"self._mask & {obj}._value")
    if len(cand) != 1:
        run.ob("M2", False, "accessor masks the value", "instance path does not compute `obj._value & self._mask`",
               module=mod, node=f, func="Bit.__get__", construct="Bit.__get__ masking")
        return
    st = cand[0][0]._parent
    if isinstance(st, ast.BinOp) and isinstance(st.op, ast.RShift) and st.left is cand[0][0]:
        # closed form: (value & mask) >> <shift>; the shift must be the number of trailing zeros of the mask
        run.ob("M2", True, "accessor masks the value")
        sh = st.right
        init = mod.functions().get("tpm_bitfield.decorator.Bit.__init__")
        expr = sh
        if isinstance(sh, ast.Attribute) and isinstance(sh.value, ast.Name) and sh.value.id == "self" and init is not None:
            d = [a for a in ast.walk(init) if isinstance(a, ast.Assign) and norm(a.targets[0]) == norm(sh)]
            if len(d) != 1:
                raise AnalysisError(f"M2: `{norm(sh)}` is not assigned exactly once in Bit.__init__")
            expr = d[0].value
        m = "self._mask" if expr is sh else init.args.args[2].arg
        good = {canon(f"({m} & -{m}).bit_length() - 1"), canon(f"({m} & ~({m} - 1)).bit_length() - 1")}
        wrong = {canon(f"{m}.bit_length() - 1"), canon(f"{m}.bit_length()")}
        if norm(expr) in good:
            run.ob("M2", True, "accessor shifts by the mask's trailing zeros")
        elif norm(expr) in wrong:
            run.ob("M2", False, "accessor shifts by the mask's trailing zeros",
                   f"the field is shifted down by `{norm(expr)}` - the position of the mask's HIGHEST bit: every multi-bit field "
                   "reads only its top bit instead of its right-aligned value", module=mod, node=expr, func="Bit.__get__",
                   construct="Bit shift amount")
        else:
            raise AnalysisError(f"M2: shift amount `{norm(expr)}` of the accessor is not a recognised trailing-zero count")
        ret = st._parent
        run.ob("M2", isinstance(ret, ast.Return), "accessor returns the shifted field bits", "the shifted bits are not returned",
               module=mod, node=st, func="Bit.__get__", construct="Bit.__get__ return")
    else:
        m2_loop_form(run, mod, f, cand[0][0], st)
    # attributes(): every public non-routine attribute of type(self)
    a = mod.functions().get("tpm_bitfield.decorator.attributes")
    if a is None:
        raise AnalysisError("M2: attributes() of tpm_bitfield not found")
    gens = [g for g in ast.walk(a) if isinstance(g, ast.GeneratorExp)]
    ok = (len(gens) == 1 and norm(gens[0].generators[0].iter) == "inspect.getmembers(type(self))"
          and len(gens[0].generators[0].ifs) == 1
          and norm(gens[0].generators[0].ifs[0]).startswith("_is_public_non_funtion_attr("))
    run.ob("M2", ok, "attributes() enumerates every mask", "attributes() no longer yields all public mask attributes",
           module=mod, node=a, func="attributes", construct="attributes() members")


def m2_loop_form(run, mod, f, masked, st):
    if not (isinstance(st, ast.Assign) and isinstance(st.targets[0], ast.Name)):
        raise AnalysisError("M2: masking expression is not assigned to a local")
    bits = st.targets[0].id
    run.ob("M2", True, "accessor masks the value")
    loops = [n for n in ast.walk(f) if isinstance(n, ast.While)]
    if len(loops) != 1:
        raise AnalysisError("M2: shift loop of Bit.__get__ not found")
    lp = loops[0]
    m = match(lp.test, "M_mask & 1 == 0")
    if m is None or not isinstance(m["M_mask"], ast.Name):
        raise AnalysisError(f"M2: shift loop condition not recognised: {norm(lp.test)}")
    mk = m["M_mask"].id
    shifts = sorted(norm(s) for s in lp.body)
    run.ob("M2", shifts == sorted([f"{bits} >>= 1", f"{mk} >>= 1"]), "accessor shifts value and mask together",
           f"shift loop body is {shifts}; must shift `{bits}` and `{mk}` right by one each", module=mod, node=lp,
           func="Bit.__get__", construct="Bit.__get__ shift loop")
    init = [s for s in ast.walk(f) if isinstance(s, ast.Assign) and is_name(s.targets[0], mk)]
    run.ob("M2", len(init) == 1 and norm(init[0].value) == "self._mask", "shift counter starts from the mask",
           "loop mask is not initialised from self._mask", module=mod, node=lp, func="Bit.__get__",
           construct="Bit.__get__ mask init")
    # the instance path (obj is not None) runs the shift loop and then returns the shifted bits
    from .. import paths
    obj = f.args.args[1].arg
    inst = [p for p in paths.summarise(mod, f) if p.truth(f"{obj} is None") is False]
    ok = bool(inst) and all(p.end == "return" and p.value_text() == bits and any(k == "loop" and n_ is lp for k, _e, n_ in p.effects)
                            for p in inst)
    run.ob("M2", ok, "accessor returns the shifted field bits",
           f"instance path does not return the shifted bits: {[(p.end, p.value_text()) for p in inst]}", module=mod, node=st,
           func="Bit.__get__", construct="Bit.__get__ return")


def m2_rows(run, project):
    mod = project.module(PRETTY)
    f = mod.functions().get("pretty_attrs")
    if f is None:
        raise AnalysisError("M2: pretty_attrs not found")
    ev = f.args.args[0].arg
    loops = [n for n in f.body if isinstance(n, ast.For)]
    if len(loops) != 1 or norm(loops[0].iter) != f"{ev}.value.attributes()":
        raise AnalysisError("M2: pretty_attrs does not iterate event.value.attributes()")
    lp = loops[0]
    at = lp.target.id
    joins = find(lp, "''.join((M_a if M_c else M_b for (M_m, M_v) in zip(M_mp, M_vp)))")
    if len(joins) != 1:
        if m2_rows_arithmetic(run, mod, f, lp, ev, at):
            return
        raise AnalysisError("M2: bit-row construction of pretty_attrs not recognised")
    b = joins[0][1]
    mn, vn = norm(b["M_m"]), norm(b["M_v"])
    good = (norm(b["M_a"]) == "'.'" and norm(b["M_c"]) == f"{mn} == '0'" and norm(b["M_b"]) == vn) or \
           (norm(b["M_b"]) == "'.'" and norm(b["M_c"]) in (f"{mn} == '1'", f"{mn} != '0'") and norm(b["M_a"]) == vn)
    run.ob("M2", good, "row shows value bit under mask 1 and '.' elsewhere",
           f"row element is `{norm(b['M_a'])} if {norm(b['M_c'])} else {norm(b['M_b'])}`", module=mod, node=joins[0][0],
           func="pretty_attrs", construct="pretty_attrs row element")

    def local_def(name):
        d = [s for s in ast.walk(lp) if isinstance(s, ast.Assign) and is_name(s.targets[0], name)]
        if len(d) != 1:
            raise AnalysisError(f"M2: `{name}` in pretty_attrs is not a single-assignment local")
        return d[0].value

    def resolve(expr, depth=0):
        while isinstance(expr, ast.Name) and depth < 6:
            if expr.id in (ev, at):
                break
            expr = local_def(expr.id)
            depth += 1
        return expr

    mp, vp = resolve(b["M_mp"]), resolve(b["M_vp"])
    mm = match(mp, "f'{M_x:b}'.zfill(M_w)")
    vm = match(vp, "f'{M_x:b}'.zfill(M_w)")
    if mm is None or vm is None:
        raise AnalysisError("M2: padded mask/value strings of pretty_attrs not recognised")
    run.ob("M2", norm(resolve(mm["M_x"])) == f"{at}._value", "mask string comes from the attribute's mask",
           f"mask string formats `{norm(resolve(mm['M_x']))}`", module=mod, node=joins[0][0], func="pretty_attrs",
           construct="pretty_attrs mask source")
    run.ob("M2", norm(resolve(vm["M_x"])) == f"{ev}.value._value", "value string comes from the event's value",
           f"value string formats `{norm(resolve(vm['M_x']))}`", module=mod, node=joins[0][0], func="pretty_attrs",
           construct="pretty_attrs value source")
    w1, w2 = resolve(mm["M_w"]), resolve(vm["M_w"])
    wm = match(w1, "M_s * 8")
    if wm is None:
        wm = match(w1, "8 * M_s")
    okw = norm(w1) == norm(w2) and wm is not None and norm(resolve(wm["M_s"])) == f"{ev}.value._int_size"
    run.ob("M2", okw, "both strings padded to 8*_int_size bits",
           f"padding widths are `{norm(w1)}` / `{norm(w2)}`", module=mod, node=joins[0][0], func="pretty_attrs",
           construct="pretty_attrs padding")
    ys = [y for y in ast.walk(lp) if isinstance(y, (ast.Yield, ast.YieldFrom))]
    run.ob("M2", len(ys) == 1 and ys[0]._parent._parent is lp, "exactly one row per attribute",
           "the attribute loop does not yield exactly one row per attribute", module=mod, node=lp, func="pretty_attrs",
           construct="pretty_attrs rows")
    conds = [n for n in ast.walk(lp) if isinstance(n, (ast.Continue, ast.Break, ast.Return))]
    run.ob("M2", not conds, "no attribute row is skipped", "attribute loop contains continue/break/return",
           module=mod, node=lp, func="pretty_attrs", construct="pretty_attrs skip")


def m2_rows_arithmetic(run, mod, f, lp, ev, at):
    """second accepted family: the row is built arithmetically as
         f"{field:0<w>b}{'.' * shift}".rjust(<8*size>, '.')
    with field = (value & mask) >> shift, shift = trailing zeros of the mask, <w> = number of bits of the mask's span.
    The zero padding to the field's width is essential: without it the leading zero bits of a field are swallowed by
    the dot padding (those bits are then shown in no row)."""
    rj = [c for c in ast.walk(lp) if isinstance(c, ast.Call) and isinstance(c.func, ast.Attribute) and c.func.attr == "rjust"
          and isinstance(c.func.value, ast.JoinedStr) and len(c.args) == 2 and norm(c.args[1]) == "'.'"]
    if len(rj) != 1:
        return False
    js = rj[0].func.value
    fvs = [v for v in js.values if isinstance(v, ast.FormattedValue)]
    if len(fvs) != 2:
        return False
    fld = fvs[0]
    spec = fld.format_spec
    spec_txt = norm(spec)[2:-1] if spec is not None else ""
    padded = spec is not None and spec_txt.startswith("0") and spec_txt.endswith("b") and len(spec.values) >= 2
    run.ob("M2", padded, "arithmetic bit row: the field is zero-padded to its width",
           f"the field is formatted with `{{...:{spec_txt}}}`: leading zero bits of a multi-bit field are not printed, so the dot padding "
           "takes their place and those bits appear in no row", module=mod, node=rj[0], func="pretty_attrs",
           construct="pretty_attrs field width")
    run.ob("M2", norm(fvs[1].value).replace(" ", "").startswith("'.'*"), "arithmetic bit row: dots below the field",
           f"suffix is `{norm(fvs[1].value)}`", module=mod, node=rj[0], func="pretty_attrs", construct="pretty_attrs suffix")
    ys = [y for y in ast.walk(lp) if isinstance(y, (ast.Yield, ast.YieldFrom))]
    run.ob("M2", len(ys) == 1, "exactly one row per attribute", "the attribute loop does not yield exactly one row per attribute",
           module=mod, node=lp, func="pretty_attrs", construct="pretty_attrs rows")
    return True
