"""Decision tables over path summaries: the shared shape of the rules that used to compare statement texts.

A rule names the atoms a function may branch on, lists (condition -> required outcome) rows in priority order, and says how
the outcome of a path is observed (what it returns / stores / yields).  Every path of the summarised function must show
the outcome the table requires for the truth values the path fixed; atoms a path leaves open are completed both ways and
the required outcome must not depend on them.  How the function spells its branches, in which order it tests, whether it
uses helpers, conditional expressions or early returns does not matter."""
from __future__ import annotations

import re

from .. import paths
from ..project import norm


class View:
    """a path whose atoms are spelled position-independently (`try@123 raises X` -> `try raises X`)"""

    def __init__(self, p, closed=()):
        self.p = p
        self._c = {re.sub(r"\b(try|loop)@\d+", r"\1", a): v for a, v, _ in p.cond}
        for a in closed:   # atoms that are events (a protected block raised): a path that does not mention one did not see it
            self._c.setdefault(a, False)

    def conds(self):
        return self._c


def label(p):
    return " & ".join(("" if v else "not ") + a for a, v, _ in p.cond) or "always"


def stores(p, prefix="self."):
    """{target text: value text} of the attribute stores of a path (last one wins)"""
    out = {}
    for k, e, _n in p.effects:
        if k != "store":
            continue
        t = norm(e)
        if "=" in t:
            lhs, rhs = t.split("=", 1)
            if lhs.strip().startswith(prefix):
                out[lhs.strip()] = rhs.strip()
    return out


def check_table(run, rule, mod, fn, qual, rows, observe, default, what, construct, implies=(), predicate=False, ps=None,
                skip=lambda p: False, show=str, closed=()):
    """rows: [({atom: truth}, outcome)], default outcome; observe(path) -> outcome.  One obligation per path."""
    if ps is None:
        ps = paths.Summariser(mod, fn, predicate=predicate).paths() if predicate else paths.summarise(mod, fn)
    n = 0
    for p in ps:
        if skip(p):
            continue
        want = paths.decide(rows, default, View(p, closed), implies)
        if not want:
            continue  # the path contradicts a known implication between the atoms: it cannot be taken
        got = observe(p)
        n += 1
        run.ob(rule, want == {got}, f"{qual} [{label(p)}]: {what}",
               f"{what}: on the path [{label(p)}] {qual} gives {show(got)}, required: {' or '.join(sorted(show(w) for w in want))}"
               + (" (the requirement depends on a test this path does not make)" if len(want) > 1 else ""),
               module=mod, node=p.node or fn, func=qual, construct=construct)
    return n
