"""C08 - warn mode reports problems as warnings and keeps decoding (necessary structural conditions).

Y1 escape set (warn mode): the failure-site ledger of C06 with every abort_on_error-guarded raise
   removed.  Allowed to abort: ValueConstraintViolatedError from the two command-code lookups and
   from the no-member branch of the union walker; size-overrun errors only travel up to their
   region's owner (Y2).  Everything else must be discharged as in C06.
Y2 owner-catch: every decode performed by an owner while one of its regions is live sits inside a
   handler for SizeConstraintExceededError that re-raises iff the error belongs to a region the
   owner did not create, else yields the warning and returns (exemption, justified from L: the byte
   payload of a TPM2B reads exactly `size` one-byte elements and cannot overrun its own region).
Y3 None-flow: a decode result that can be None after a recovery return is tested before it is
   iterated / dereferenced (ledger idiom `iterate-optional`).
Y4 recovery bookkeeping: (a) bytes skipped as padding of a short region are charged to the enclosing
   regions; (b) on recovery, regions registered after the recovered one are retired; (c) the region
   list must not charge an outer region for bytes an inner region's overrun never consumes.
Y5 completion on a byte send: if some coroutine path ends with a byte request as its last yield (tail
   byte request), the pump's send(byte) site must handle the processor's completion like its
   send(None) site does (else StopIteration surfaces as RuntimeError from the generator).
Not decided: the tiling statement itself (every input byte shown / skipped / surplus).
"""
from __future__ import annotations

import ast

from .. import ctx
from ..flow import yields_in
from ..project import AnalysisError, call_name, kwarg, norm, walk_no_nested, order
from ..roles import CONSTRAINTS
from . import c06
from .c06 import DOCUMENTED, Ledger

ALLOWED_ABORTS = {("process_command", "ValueConstraintViolatedError"), ("process_response", "ValueConstraintViolatedError"),
                  ("process_tpmu", "ValueConstraintViolatedError")}
SIZE_FAMILY = {"SizeConstraintExceededError", "AnticipatedSizeConstraintExceededError", "ConstraintObsoleteError"}


class WarnLedger(Ledger):
    def discharge(self, s):
        q = s.ref.qual
        if s.kind == "raise" and all(c in DOCUMENTED for c in s.cls.split("|")):
            if self.mode_guarded_strict_only(s):
                return "mode-guarded", "strict-only raise: warn mode wraps the same error in a WarningEvent (C07-NI-3)"
            if (q, s.cls) in ALLOWED_ABORTS:
                return "allowed-abort", "the layout is unknowable (unknown command code / selector without member)"
            if s.cls in SIZE_FAMILY or s.cls == "SizeConstraintExceededError":
                if q == "SizeConstraint.bytes_parsed":
                    return "owner-catch", "travels to the owner of the overrun region (Y2) / caught by set_constraint (anticipation)"
                if self.owner_reraise(s):
                    return "owner-catch", "re-raise of an overrun that belongs to another owner's region (Y2)"
            if q == self.roles.pump.name and s.cls == "ConstraintViolatedError":
                return "pump", "the pump re-raises an allowed abort after attaching the remaining bytes"
            return None
        return super().discharge(s)

    def mode_guarded_strict_only(self, s):
        """raise under `if abort_on_error:` exactly (not `abort_on_error or ...`)"""
        return self.mode_guarded(s)

    def owner_reraise(self, s):
        if s.cls != "SizeConstraintExceededError" or not isinstance(s.node.exc, ast.Name):
            return False
        e = s.node.exc.id
        for t, in_body in self.enclosing_tests(s.node):
            if in_body and isinstance(t, ast.BoolOp) and isinstance(t.op, ast.Or) and len(t.values) == 2 and any(
                    isinstance(v, ast.Name) and v.id == "abort_on_error" for v in t.values) and any(
                    isinstance(v, ast.Compare) and norm(v.left) == f"{e}.constraint" for v in t.values):
                return True
        return False


def check(run, project):
    run.explanation = ("warn-mode variant of the failure-site ledger, owner-catch rule on the specialised traces, recovery "
                       "bookkeeping and pump completion rules on the source of the constraint classes and the pump")
    from .c02 import primitive_event_once
    from ..roles import MarshalRoles as _MR
    primitive_event_once(run, _MR(project), "Y6")
    # Y9 (= C04-V6, union part): the one value error warn mode still aborts with when a selector selects no member is built
    # from the selector itself (an error built from another object fails in its own constructor / text form: an internal
    # error where the documented abort belongs)
    from .c04 import v6_union
    try:
        v6_union(run, _MR(project), rule="Y9")
    except AnalysisError as ex:
        run.info(f"Y9: the union walker's value error could not be followed ({ex}); not judged here (C04 reports it)")
    lg = WarnLedger(run, project, "warn")
    counts = {}
    for s in lg.sites:
        d = lg.discharge(s)
        if d is not None:
            counts[d[0]] = counts.get(d[0], 0) + 1
            run.ob("Y1", True, f"{s.ref.qual} L{getattr(s.node, 'lineno', '?')}: {s.kind} {s.cls} - {d[0]}")
            continue
        rule = "Y3" if s.kind == "idiom:iterate-optional" else "Y1"
        what = ("a decode result that is None after a recovery return is iterated without a None test"
                if rule == "Y3" else
                f"in warn mode this {s.kind} site can abort decoding with {s.cls}, which is not one of the two documented aborts")
        run.ob(rule, False, f"{s.ref.qual}: {s.kind} {s.cls}", what, module=s.ref.mod,
               node=s.node if not isinstance(s.node, ast.Name) else s.node._parent, func=s.ref.qual,
               construct=f"{s.kind}: {s.text}")
    run.cover(failure_sites=len(lg.sites), discharged_by=counts)
    # the ledger treats `if abort_on_error: raise` as not executed in warn mode: that needs the caller's mode to reach
    # every callee unchanged
    from .c07 import check_threading
    n = check_threading(run, project, rule="Y0")
    run.require(n >= 30, f"Y0: only {n} threaded call sites found")
    y2(run, lg)
    from .shared import discarded_generators
    discarded_generators(run, project, "Y7")
    # Y8 (= C15-F1): warn mode has to be reachable through every front-end - the mode flag (and every other option) is
    # handed on unchanged, with the decoder's own default
    from ..report import RuleView
    from . import c15
    c15.f1_f2(RuleView(run, "F1", "Y8"), project)
    y4(run, lg)
    y5(run, lg)
    run.floor("Y1", 70, "failure sites")
    run.floor("Y2", 8)


# ------------------------------------------------------------------------------ Y2
def y2(run, lg):
    L, roles = lg.L, lg.roles
    mod = roles.mod
    owners = [("process_command", L.Command), ("process_response", L.Response), ("process_tpm2b", None),
              ("process_byte_sized_array", None)]
    for w, T in owners:
        fn = roles.walkers[w]
        handlers = [h for h in ast.walk(fn) if isinstance(h, ast.ExceptHandler) and h.type is not None
                    and norm(h.type) == "SizeConstraintExceededError"]
        # regions this owner is responsible for
        own = [norm(s.targets[0]) for s in walk_no_nested(fn) if isinstance(s, ast.Assign) and isinstance(s.value, ast.Call)
               and call_name(s.value) == "SizeConstraint"]
        if w == "process_byte_sized_array":
            own = ["array_size_constraint"]
        run.ob("Y2", len(handlers) == 1, f"{w}: one recovery handler for its regions {own}", f"{len(handlers)} handlers",
               module=mod, node=fn, func=w, construct=f"{w} recovery handler")
        if len(handlers) != 1:
            continue
        h = handlers[0]
        # decided on the summaries of the paths that enter the handler: re-raise iff strict or someone else's region;
        # otherwise exactly one warning wrapping the caught error, then return to the caller
        import re
        from .. import paths

        def all_paths(ps, out):
            for p in ps:
                out.append(p)
                for sub in p.loops.values():
                    all_paths(sub, out)
            return out
        rec = [p for p in all_paths(paths.Summariser(mod, fn).paths(), [])
               if any(a.startswith("try@") and "SizeConstraintExceededError" in a and n_ is h for a, _v, n_ in p.cond)]
        seen_keys, n_raise, n_recover = set(), 0, 0
        for p in rec:
            # only what happens from the handler on
            i0 = next(i for i, (a, _v, n_) in enumerate(p.cond) if n_ is h)
            conds = p.cond[i0 + 1:]
            j0 = max((i for i, (k, _e, _n) in enumerate(p.effects) if k == "try-body"), default=-1)
            fx = [(k, None if e is None else paths.text(e)) for k, e, _n in p.effects[j0 + 1:]]
            key = (tuple((a, v) for a, v, _ in conds), tuple(fx), p.end)
            if key in seen_keys:
                continue
            seen_keys.add(key)
            lab = " & ".join(("" if v else "not ") + a for a, v, _ in conds) or "always"
            strict = next((v for a, v, _ in conds if a == "truthy abort_on_error"), None)
            mine, ev_ = None, h.name
            for a, v, _ in conds:
                m = re.fullmatch(r"(\w+)\.constraint (in|==) (.*)", a)
                if m:
                    ev_ = m.group(1)
                    try:
                        names = [norm(x) for x in ast.parse(m.group(3), mode="eval").body.elts] if m.group(2) == "in" else [m.group(3)]
                    except Exception:
                        names = [m.group(3)]
                    mine = (names, v)
            if p.end == "raise":
                n_raise += 1
                okr = p.value_text() == ev_ and (strict is True or (strict is False and mine is not None and mine[1] is False
                                                                        and sorted(mine[0]) == sorted(own)))
                run.ob("Y2", okr, f"{w}: re-raises iff the overrun belongs to someone else's region [{lab}]",
                       f"ownership test on the path [{lab}] re-raises `{p.value_text()}`; this owner's regions are {own}: "
                       "an overrun of an own region is re-raised (aborts warn mode) or a foreign one is swallowed (decoding resumes at the "
                       "wrong place)", module=mod, node=p.node or h, func=w, construct=f"{w} ownership test")
                continue
            n_recover += 1
            oko = strict is False and mine is not None and mine[1] is True and sorted(mine[0]) == sorted(own)
            run.ob("Y2", oko, f"{w}: recovers only in warn mode and only from an overrun of its own regions [{lab}]",
                   f"ownership test is [{lab}]; this owner's regions are {own}: "
                   "an overrun of an own region is re-raised (aborts warn mode) or a foreign one is swallowed (decoding resumes at the "
                   "wrong place)", module=mod, node=p.node or h, func=w, construct=f"{w} ownership test")
            ok2 = fx == [("yield", f"WarningEvent(error={ev_})")] and p.end == "return"
            run.ob("Y2", ok2, f"{w}: recovery = warning, then return to the caller (resume at the region's end)",
                   f"recovery path does not `yield WarningEvent(error=e)` and return: it does {fx} and ends with `{p.end}`", module=mod,
                   node=p.node or h, func=w, construct=f"{w} recovery path")
        run.ob("Y2", n_raise >= 1 and n_recover >= 1, f"{w}: the handler both re-raises and recovers",
               f"the recovery handler has {n_raise} re-raising and {n_recover} recovering paths", module=mod, node=h, func=w,
               construct=f"{w} ownership test")
        # which decodes are protected
        tr = h._parent
        protected = {id(c) for st in tr.body for c in ast.walk(st) if isinstance(c, ast.Call) and call_name(c) == roles.dispatcher.name}
        calls = [c for c in walk_no_nested(fn) if isinstance(c, ast.Call) and call_name(c) == roles.dispatcher.name]
        for c in calls:
            live = lg_live_own_region(lg, w, T, c)
            if not live:
                run.ob("Y2", True, f"{w} L{c.lineno}: decode while no own region is live")
                continue
            if id(c) in protected:
                run.ob("Y2", True, f"{w} L{c.lineno}: decode under the recovery handler")
                continue
            # exemption: TPM2B byte payload
            exempt = w == "process_tpm2b" and kwarg(c, "count") is not None and tpm2b_list_payloads_are_bytes(lg)
            run.ob("Y2", exempt, f"{w} L{c.lineno}: byte payload cannot overrun its own region (exactly `size` one-byte elements)",
                   f"a field is decoded while region(s) {live} of this owner are live but outside its recovery handler: an overrun of "
                   "that region propagates past its owner and aborts warn mode", module=mod, node=c, func=w,
                   construct=f"{w} unprotected decode")


def lg_live_own_region(lg, w, T, call):
    """regions of this owner that are registered and not yet closed when `call` is made (on some trace)"""
    if w == "process_byte_sized_array":
        return ["array_size_constraint"]
    live = set()
    for tr in lg.traces(w, T):
        reg = []
        for e in tr.trace:
            if e.kind == "register":
                reg.append(e.data["region"])
            elif e.kind == "close" and e.data["region"][0] == "region" and e.data["region"][1] in reg:
                reg.remove(e.data["region"][1])
            elif e.kind == "process" and e.node is call:
                live |= set(reg)
    return sorted(live)


def tpm2b_list_payloads_are_bytes(lg):
    L = lg.L
    for k, c in L.all.items():
        if isinstance(c, type(L.Command)) and c.name.startswith("TPM2B") and L.is_dataclass(c):
            f = L.fields(c)
            if len(f) == 2 and type(f[1][1]).__name__ == "ListT":
                et = f[1][1].elem
                if not (L.is_primitive(et) and L.int_size(et) == 1):
                    return False
    return True


# ------------------------------------------------------------------------------ Y4
def y4(run, lg):
    cm = lg.project.module(CONSTRAINTS)
    ad = cm.functions().get("SizeConstraint.assert_done")
    bp = cm.functions().get("SizeConstraint.bytes_parsed")
    lb = cm.functions().get("SizeConstraintList.bytes_parsed")
    if None in (ad, bp, lb):
        raise AnalysisError("Y4: constraint methods not found")
    # (a) padding must be charged to the enclosing regions
    pads = [c for c in walk_no_nested(ad) if isinstance(c, ast.Call) and call_name(c) == "consume_bytes"]
    if len(pads) != 1 or not isinstance(getattr(pads[0], "_parent", None), ast.YieldFrom):
        run.ob("Y4", False, "assert_done skips the padding of a short region",
               "assert_done() no longer runs `yield from consume_bytes(<limit - counted>)` after reporting a shortfall in warn mode: "
               "decoding does not resume at the declared end of the region (the filler bytes are decoded as the next field)",
               module=cm, node=pads[0] if pads else ad, func="SizeConstraint.assert_done", construct="padding skip")
        return
    p_all = ad.args.args[1].arg
    uses = [n for n in walk_no_nested(ad) if isinstance(n, ast.Name) and n.id == p_all and isinstance(n.ctx, ast.Load)]
    charged = any(isinstance(u._parent, ast.Attribute) and u._parent.attr == "bytes_parsed" for u in uses)
    run.ob("Y4", charged, "padding skipped after a short region is charged to the enclosing regions",
           f"assert_done() never uses its `{p_all}` parameter: the padding bytes it consumes are not counted by the enclosing "
           "regions, which later report a bogus shortfall / the input as depleted or surplus", module=cm, node=pads[0],
           func="SizeConstraint.assert_done", construct="padding not charged to all_size_constraints")
    # (b) recovery must retire regions registered after the recovered one
    roles = lg.roles
    for w in ("process_command", "process_response", "process_tpm2b", "process_byte_sized_array"):
        fn = roles.walkers[w]
        for h in [h for h in ast.walk(fn) if isinstance(h, ast.ExceptHandler) and h.type is not None and norm(h.type) == "SizeConstraintExceededError"]:
            retire = [c for c in ast.walk(h) if isinstance(c, ast.Call) and isinstance(c.func, ast.Attribute)
                      and (c.func.attr in ("remove", "retire", "clear", "pop") or "obsolete" in c.func.attr)
                      and "size_constraints" in norm(c.func.value)] + \
                     [a for a in ast.walk(h) if isinstance(a, ast.Assign) and "is_obsolete" in norm(a.targets[0])]
            run.ob("Y4", bool(retire), f"{w}: recovery retires the regions nested inside the recovered one",
                   "the recovery path leaves regions registered by the abandoned nested decoders in the list: a stale inner region "
                   "keeps counting and later raises SizeConstraintExceededError for a region whose owner is gone (escapes warn mode)",
                   module=roles.mod, node=h, func=w, construct=f"{w} recovery does not retire nested regions")
    # (c) check-then-charge in the list
    loops = [s for s in lb.body if isinstance(s, ast.For)]
    two_pass = len(loops) >= 2 or any(isinstance(c, ast.Call) and any(k.arg == "anticipate_only" and isinstance(k.value, ast.Constant)
                                                                       and k.value.value is True for k in c.keywords)
                                      for c in ast.walk(lb))
    run.ob("Y4", two_pass, "the region list checks every region before it charges any",
           "SizeConstraintList.bytes_parsed checks and charges region by region: regions earlier in the list (the enclosing ones) are "
           "already charged for the whole field when an inner region overruns and only its remainder is consumed", module=cm,
           node=lb, func="SizeConstraintList.bytes_parsed", construct="charge before all checks")
    # the skip on overrun consumes exactly the rest of the region (needed for 'resume at the declared end')
    sk = [c for c in walk_no_nested(bp) if isinstance(c, ast.Call) and call_name(c) == "consume_bytes"]
    from ..fnview import expand_expr
    ok = len(sk) == 1 and "self.size_max - self.size_already" in expand_expr(cm, bp, sk[0].args[0])
    run.ob("Y4", ok, "an overrun skips exactly to the end the violated size field declares", "overrun skip changed", module=cm,
           node=bp, func="SizeConstraint.bytes_parsed", construct="overrun skip amount")
    ok = len(pads) == 1 and "self.size_max - self.size_already" in expand_expr(cm, ad, pads[0].args[0])
    run.ob("Y4", ok, "a shortfall skips exactly to the end the violated size field declares", "padding skip changed", module=cm,
           node=ad, func="SizeConstraint.assert_done", construct="padding skip amount")
    obs = [s for s in walk_no_nested(bp) if isinstance(s, ast.Assign) and norm(s.targets[0]) == "self.is_obsolete"]
    run.ob("Y4", len(obs) == 1 and sk and order(obs[0]) < order(sk[0]), "an overrun region is retired before its tail is skipped",
           "overrun does not retire the region", module=cm, node=bp, func="SizeConstraint.bytes_parsed", construct="overrun retires region")


# ------------------------------------------------------------------------------ Y5
def y5(run, lg):
    cm = lg.project.module(CONSTRAINTS)
    # tail byte request: a coroutine whose last action before returning can be a byte request
    tails = []
    for q, fn in list(cm.functions().items()) + list(lg.roles.mod.functions().items()):
        if not fn.body:
            continue
        last = fn.body[-1]
        if isinstance(last, ast.Expr) and isinstance(last.value, ast.YieldFrom) and isinstance(last.value.value, ast.Call) \
                and call_name(last.value.value) == "consume_bytes" and q not in ("consume_bytes",):
            tails.append((q, last))
    esc = {id(n): n for n, st, kind in lg.F.stopiter_escape if kind == "byte"}
    if not tails:
        run.ob("Y5", True, "no coroutine ends with a byte request (the processor never completes on a byte send)")
        return
    for n in esc.values():
        run.ob("Y5", False, "pump send(byte) handles completion of the processor",
               f"{', '.join(q for q, _ in tails)} can end the processor with a byte request as its last yield (padding skip), but the "
               "pump's `send(byte)` site catches only ConstraintViolatedError: the processor's StopIteration surfaces as "
               "`RuntimeError: generator raised StopIteration`", module=lg.roles.mod, node=n.ast, func=lg.roles.pump.name,
               construct="send(byte) does not handle processor completion")
    if not esc:
        run.ob("Y5", True, "pump send(byte) handles completion of the processor")
