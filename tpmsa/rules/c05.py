"""C05 - input length mismatches are reported as depleted / superfluous, never absorbed.

Decided on the byte pump `marshal()` with the typestate runner:
E1 exit classification - every `return` of the pump is one of
     (a) the processor's result, in the handler of the processor's completion, source depleted;
     (b) after the warning for a superfluous / depleted error (warn mode);
     (c) the silent end-of-stream return (E3);
   a surplus byte (processor done while a FRESH byte is held) leads on every path to the
   superfluous error carrying `look-ahead byte + rest of the iterator`; leaving the pull loop
   (source depleted, processor unfinished) leads on every path to the depleted error.
E2 both InputStream* errors receive the pump's running command code, which is only assigned from
   an event whose path is <root>.commandCode.
E3 the silent return is control dependent on the requested type being the stream type.
Not decided: which events precede the error for a concrete truncation point.
"""
from __future__ import annotations

import ast

from .. import ctx, pump
from ..project import order, AnalysisError, call_name, kwarg, norm, walk_no_nested
from .c13 import attach_items

SUPER = "InputStreamSuperfluousBytesError"
DEPL = "InputStreamBytesDepletedError"


def enclosing_tests(node_ast, stop):
    """[(test, in_body)] of If statements enclosing node_ast up to `stop`."""
    out = []
    child, p = node_ast, getattr(node_ast, "_parent", None)
    while p is not None and p is not stop:
        if isinstance(p, ast.If):
            out.append((p.test, any(child is x for x in p.body)))
        child, p = p, getattr(p, "_parent", None)
    return out


def conjuncts(test, view=None, at=None, depth=0):
    """conjuncts of a test; a Name conjunct that is a single-definition boolean local whose operands are not
    re-bound between its definition and the test is replaced by the conjuncts of its definition."""
    if isinstance(test, ast.BoolOp) and isinstance(test.op, ast.And):
        out = []
        for v in test.values:
            out += conjuncts(v, view, at, depth)
        return out
    if view is not None and at is not None and isinstance(test, ast.Name) and depth < 4:
        node = view.cfg.node_of(at)
        defs = view.rd.reaching(node, test.id) if node is not None else []
        if len(defs) == 1 and test.id in view.rd.defs[defs[0].id] and view.rd.defs[defs[0].id][test.id][0] == "expr":
            rhs = view.rd.defs[defs[0].id][test.id][1]
            stable = all(set(d.id for d in view.rd.reaching(node, nm.id)) == set(d.id for d in view.rd.reaching(defs[0], nm.id))
                         for nm in ast.walk(rhs) if isinstance(nm, ast.Name) and nm.id != test.id)
            if stable and isinstance(rhs, (ast.Compare, ast.BoolOp, ast.Call, ast.UnaryOp)):
                return conjuncts(rhs, view, at, depth + 1)
    return [test]


def check(run, project):
    F = pump.analyse(project)
    roles, mod, fn, rd = F.roles, F.roles.mod, F.roles.pump, F.rd
    L = ctx.layout(project)
    run.explanation = ("typestate fixpoint over the pump's CFG; every return / raise / warning site is classified in "
                       "every abstract state (look-ahead byte x depleted x last yield) that reaches it")
    from .carriers import check_carriers
    check_carriers(run, project, "E1", {"bytes_remaining", "command_code"})
    # E4 (= C01-W0): how many bytes a value occupies is what the layout tables say - field lists, widths, list sizes of union
    # members, selector maps. A table entry that is too small makes a truncated encoding decode cleanly (the cut is absorbed)
    # and the complete one leave surplus bytes: the decode facets of all types equal the pinned snapshot
    from . import c20 as _c20
    _c20.t6(run, project, L, facets={"decode"}, rule="E4")
    # E5: the depleted / superfluous errors are RAISED (with the command code and the remaining bytes to read) by a strict
    # decode, and strict is what a caller gets who says nothing - also through Canonical, the object front door
    from .shared import canonical_mode_default
    canonical_mode_default(run, project, "E5", "a truncated or over-long input ends in a warning event instead of the error")
    run.cover(cfg_nodes=len(F.cfg.nodes), node_states=sum(len(s) for s in F.states.values()))
    mode = "abort_on_error"
    if mode not in [a.arg for a in fn.args.args]:
        raise AnalysisError("C05: the pump has no abort_on_error parameter")

    def err_class_of(name, node):
        classes = set()
        for r in rd.value_exprs(node, name):
            if r[0] == "expr" and isinstance(r[1], ast.Call):
                classes.add(call_name(r[1]))
            elif r[0] == "handler":
                classes.add("handler:" + (norm(r[1].type) if r[1].type is not None else "*"))
            else:
                classes.add("?")
        return classes

    # ---- warnings yielded by the pump itself
    warn_yields = {}
    for node, st, what in F.yields:
        if what == "event":
            continue
        y = node.ast.value.value
        ok = isinstance(y, ast.Call) and call_name(y) == "WarningEvent" and kwarg(y, "error") is not None \
            and isinstance(kwarg(y, "error"), ast.Name)
        if not ok:
            run.ob("E1", False, f"pump yield at L{node.lineno}", f"the pump yields `{what}`, neither the processor's event "
                   "nor a WarningEvent(error=...)", module=mod, node=node, func=fn.name)
            continue
        cls = err_class_of(kwarg(y, "error").id, node)
        warn_yields[node.id] = (node, cls)
        tests = enclosing_tests(node.ast, fn)
        guarded = any(mode_false(t, in_body, mode) for t, in_body in tests)
        # `if abort_on_error: raise` followed by the yield also counts (fallthrough form)
        if not guarded:
            prev = prev_sibling(node.ast)
            guarded = isinstance(prev, ast.If) and norm(prev.test) == mode and len(prev.body) == 1 \
                and isinstance(prev.body[0], ast.Raise) and not prev.orelse
        run.ob("E1", guarded and len(cls) == 1 and cls <= {SUPER, DEPL}, f"warning at L{node.lineno} wraps {sorted(cls)}",
               f"warn-mode branch must wrap the same depleted/superfluous error that strict mode raises (wraps {sorted(cls)})",
               module=mod, node=node, func=fn.name)

    dom = F.cfg.dominators()

    def dominated_by_warning(node):
        return [w for w, (wn, cls) in warn_yields.items() if w in dom[node.id] and w != node.id]

    # ---- returns
    silent = []
    for rnode in {id(n): n for n, _ in F.returns}.values():
        states = sorted({st for n, st in F.returns if n is rnode})
        val = rnode.ast.value
        h = rnode.ast
        while h is not None and not isinstance(h, ast.ExceptHandler):
            h = getattr(h, "_parent", None)
        in_completion = h is not None and h.type is not None and norm(h.type) == "StopIteration"
        warned = dominated_by_warning(rnode)
        if warned:
            run.ob("E1", True, f"return at L{rnode.lineno}: after the warning (warn mode)")
            continue
        if in_completion:
            # processor finished: legal only when nothing is left, i.e. depleted in every state
            fresh = [s for s in states if not s[1] and not s[3]]   # (after its own warning the pump may return in warn mode)
            # returns the processor's result (second component of StopIteration.value)
            okv = isinstance(val, ast.Name) and any(
                r[0] == "unpack" and r[2] == 1 and norm(r[1]) == f"{h.name}.value" for r in rd.value_exprs(rnode, val.id))
            run.ob("E1", not fresh, f"return at L{rnode.lineno}: processor result only when the source is depleted",
                   f"the pump returns normally although a pulled byte is still unconsumed (states {fresh}): "
                   "surplus input is absorbed instead of raising InputStreamSuperfluousBytesError",
                   module=mod, node=rnode, func=fn.name, construct=norm(rnode.ast))
            run.ob("E1", okv, f"return at L{rnode.lineno}: returns the processor's object",
                   "completion path does not return the object carried by the processor's StopIteration",
                   module=mod, node=rnode, func=fn.name, construct=norm(rnode.ast) + " [value]")
            continue
        silent.append((rnode, states))
    if len(silent) > 1:
        for rnode, states in silent[1:]:
            run.ob("E1", False, f"return at L{rnode.lineno}", "unclassified silent return of the pump (input absorbed)",
                   module=mod, node=rnode, func=fn.name, construct=norm(rnode.ast) + " [silent]")
    # ---- E3: the silent return
    stream_name = L.Stream.name
    tparam = fn.args.args[0].arg
    for rnode, states in silent[:1]:
        tests = enclosing_tests(rnode.ast, fn)
        cj = [c for t, in_body in tests if in_body for c in conjuncts(t, F, t)]
        dep_ok = any(isinstance(c, ast.Name) and c.id == roles.depleted_var for c in cj) if roles.depleted_var is not None else \
            any(norm(c) == f"{roles.byte_var} is None" for c in cj)   # (marker form: the look-ahead variable is None)
        typed = any(norm(c) in (f"{tparam} is {stream_name}", f"{tparam} == {stream_name}",
                                f"issubclass({tparam}, {stream_name})") for c in cj)
        run.ob("E3", dep_ok, "silent return only when the source is depleted",
               "the end-of-stream return is not guarded by the depleted flag", module=mod, node=rnode, func=fn.name,
               construct="silent return [depleted guard]")
        run.ob("E3", typed, "silent return only for the command/response stream type",
               f"the silent end-of-input return is not control dependent on `{tparam} is {stream_name}`: any type "
               "decoded from an input that ends at its root event (e.g. an empty input) returns [] instead of raising "
               "InputStreamBytesDepletedError", module=mod, node=rnode, func=fn.name,
               construct="silent return [stream-type guard]")
        # (an equality of the event's path with the root path, and `value is ...`: both in positive form)
        boundary = any(isinstance(c, ast.Compare) and len(c.ops) == 1 and isinstance(c.ops[0], ast.Eq) and "path" in norm(c)
                       and ("from_string" in norm(c) or "root" in norm(c).lower()) for c in cj) and \
            any(isinstance(c, ast.Compare) and len(c.ops) == 1 and isinstance(c.ops[0], ast.Is) and norm(c).endswith("value is ...") for c in cj)
        # ... or by type: the only events typed Command / Response are the `...` events with which the two message walkers
        # announce themselves (C01-F), so `event.type in {Command, Response}` names exactly the root events of messages
        def type_set(e):
            if isinstance(e, ast.Name):   # a module-level constant
                ds = [a.value for a in mod.tree.body if isinstance(a, ast.Assign) and len(a.targets) == 1 and norm(a.targets[0]) == e.id]
                e = ds[0] if len(ds) == 1 else e
            if isinstance(e, ast.Call) and call_name(e) in ("frozenset", "set", "tuple") and len(e.args) == 1:
                e = e.args[0]
            if isinstance(e, (ast.Set, ast.Tuple, ast.List)) and all(isinstance(x, ast.Name) for x in e.elts):
                return {x.id for x in e.elts}
            return None
        msg_types = {L.Command.name, L.Response.name}
        by_type = any(isinstance(c, ast.Compare) and len(c.ops) == 1 and isinstance(c.ops[0], ast.In) and norm(c.left).endswith(".type")
                      and type_set(c.comparators[0]) == msg_types for c in cj)
        boundary = boundary or by_type
        run.ob("E3", boundary, "silent return only at a message boundary (root event of the next message)",
               "the silent return is not restricted to the root `...` event of a new message", module=mod, node=rnode,
               func=fn.name, construct="silent return [boundary guard]")
    if not silent:
        run.info("no silent end-of-stream return in the pump")
    # ---- handlers of the pump: a constraint error is re-raised on every path (after the remaining bytes were attached), the
    #      completion handler (StopIteration of the processor) ends the pump on every path - neither may fall back into the loop
    def ends(stmts):
        if not stmts:
            return False
        last = stmts[-1]
        if isinstance(last, (ast.Raise, ast.Return)):
            return True
        if isinstance(last, ast.If):
            return ends(last.body) and bool(last.orelse) and ends(last.orelse)
        if isinstance(last, ast.Try):
            return (ends(last.body) or ends(last.orelse)) and all(ends(h.body) for h in last.handlers) or ends(last.finalbody)
        return False
    for h in [h for h in ast.walk(fn) if isinstance(h, ast.ExceptHandler) and h.type is not None]:
        t = norm(h.type)
        trybody = getattr(h, "_parent", None)
        sends = isinstance(trybody, ast.Try) and any(isinstance(c, ast.Call) and norm(c.func) == f"{roles.proc_var}.send"
                                                     for b_ in trybody.body for c in ast.walk(b_))
        if t == "StopIteration" and sends:
            run.ob("E1", ends(h.body), f"completion handler at L{h.lineno} ends the pump on every path",
                   "the handler of the processor's StopIteration can be left normally: after the processor has finished the pump "
                   "goes on pushing into it instead of returning its result / reporting surplus input", module=mod, node=h,
                   func=fn.name, construct="completion handler exit")
        elif "Constraint" in t and sends:
            rs = [r for r in ast.walk(h) if isinstance(r, ast.Raise)]
            same = all(r.exc is None or (isinstance(r.exc, ast.Name) and r.exc.id == h.name) for r in rs)
            run.ob("E1", ends(h.body) and bool(rs) and same, f"constraint errors caught at L{h.lineno} are re-raised on every path",
                   "a constraint error of the processor is caught and not re-raised on every path: the violation is swallowed and the "
                   "pump goes on with a processor that has failed", module=mod, node=h, func=fn.name,
                   construct=f"re-raise in `except {t}`")
    # ---- superfluous: in the completion handler with a FRESH byte every path raises or warns
    sup_raise = [(n, st) for n, st, cls in F.raises if cls == SUPER]
    dep_raise = [(n, st) for n, st, cls in F.raises if cls == DEPL]
    run.ob("E1", bool(sup_raise) and all(st[0] == "FRESH" and not st[1] for _, st in sup_raise),
           "superfluous error is raised exactly when a pulled byte is unconsumed at completion",
           "InputStreamSuperfluousBytesError is not raised in state (byte FRESH, not depleted) only"
           if sup_raise else "no raise of InputStreamSuperfluousBytesError left in the pump",
           module=mod, node=sup_raise[0][0] if sup_raise else fn, func=fn.name, construct="raise superfluous")
    run.ob("E1", bool(dep_raise) and all(st[1] and st[2] == "NONE" for _, st in dep_raise),
           "depleted error is raised exactly when the source is exhausted and the processor waits for a byte",
           "InputStreamBytesDepletedError is not raised in state (depleted, processor asked for a byte) only"
           if dep_raise else "no raise of InputStreamBytesDepletedError left in the pump",
           module=mod, node=dep_raise[0][0] if dep_raise else fn, func=fn.name, construct="raise depleted")
    # the loop exit: while-test false edge -> must not reach exit without raise/warn
    # the pull loop: the `while` that contains the byte send; its exits are the false edge of its test and its breaks
    send_nodes = [n for n, _st in F.send_byte]
    loops_ = []
    for sn in send_nodes:
        p_ = sn.ast
        while p_ is not None and not isinstance(p_, ast.While):
            p_ = getattr(p_, "_parent", None)
        if p_ is not None and p_ not in loops_:
            loops_.append(p_)
    if len(loops_) != 1:
        raise AnalysisError("C05: the pull loop of the pump was not found")
    loop_ast = loops_[0]
    inside = {id(x) for x in ast.walk(loop_ast)}

    def in_loop(n):
        return n.ast is not None and (id(n.ast) in inside or (n.kind == "test" and n.label is loop_ast))
    after = []
    for n in F.cfg.nodes:
        if not in_loop(n):
            continue
        for lab, s_ in n.succ:
            if not in_loop(s_) and s_ is not F.cfg.exit and s_ is not F.cfg.raise_exit and s_.kind != "handler" \
                    and not (n.kind == "stmt" and isinstance(n.ast, (ast.Return, ast.Raise))) and s_ not in after:
                after.append(s_)
    lt = next((n for n in F.cfg.nodes if n.kind == "test" and n.label is loop_ast), None) or send_nodes[0]
    escaped = reach_exit_without(F.cfg, after, stop_ids=set(warn_yields) | {n.id for n, _ in dep_raise})
    run.ob("E1", not escaped, "leaving the pull loop always reports depletion",
           "a path from the end of the pull loop reaches the pump's exit without raising / warning "
           "InputStreamBytesDepletedError (truncated input absorbed)", module=mod, node=lt, func=fn.name,
           construct="loop exit -> depleted error")
    # ---- superfluous error carries look-ahead byte + rest
    for node, st, expr, via in F.attach:
        if via != SUPER:
            continue
        items = attach_items(F, node, st, expr)
        run.ob("E1", items == [("byte",), ("iter",)] and st[0] == "FRESH",
               f"superfluous bytes at L{node.lineno} = look-ahead byte + rest of the iterator",
               f"surplus bytes are built from {items} in state byte={st[0]}", module=mod, node=node, func=fn.name,
               construct="bytes_remaining of " + SUPER)
    n_super = len([c for c in walk_no_nested(fn) if isinstance(c, ast.Call) and call_name(c) == SUPER])
    n_att = len({id(node) for node, st, expr, via in F.attach if via == SUPER})
    run.ob("E1", n_att >= n_super >= 1, "every superfluous error carries the surplus bytes",
           f"{n_super} constructions of {SUPER} in the pump, {n_att} of them are given the surplus bytes: the error no longer says "
           "which bytes were left over (or cannot be built at all)", module=mod, node=fn, func=fn.name, construct="bytes_remaining of " + SUPER)
    # ---- E2 command code
    cc_defs = None
    for cls_name in (SUPER, DEPL):
        calls = [c for c in walk_no_nested(fn) if isinstance(c, ast.Call) and call_name(c) == cls_name]
        if not calls:
            raise AnalysisError(f"C05: no construction of {cls_name} in the pump")
        for c in calls:
            k = kwarg(c, "command_code")
            ok = isinstance(k, ast.Name)
            run.ob("E2", ok, f"{cls_name} at L{c.lineno} carries the running command code",
                   f"{cls_name} is built without command_code=<running command code>", module=mod, node=c, func=fn.name,
                   construct=f"{cls_name}(command_code=...)")
            if ok:
                cc_defs = k.id if cc_defs in (None, k.id) else "?"
    if cc_defs and cc_defs != "?":
        assigns = [n for n in walk_no_nested(fn) if isinstance(n, ast.Assign) and isinstance(n.targets[0], ast.Name)
                   and n.targets[0].id == cc_defs]
        # "None if no command was decoded so far": the running code starts as None - in particular it is not the pump's own
        # `command_code` argument (the code a lone response is *interpreted* with), which has the same name
        loops_top = [s_ for s_ in fn.body if isinstance(s_, ast.While)]
        first_loop = min((order(s_) for s_ in loops_top), default=None)
        reset = [a for a in assigns if isinstance(a.value, ast.Constant) and a.value.value is None and any(a is s_ for s_ in fn.body)
                 and (first_loop is None or order(a) < first_loop)]
        captures = [a for a in assigns if not (isinstance(a.value, ast.Constant) and a.value.value is None)]
        run.ob("E2", bool(captures), "the running command code follows the commands decoded",
               f"`{cc_defs}` is never assigned from the <root>.commandCode event: the errors carry no (or a stale) command code",
               module=mod, node=fn, func=fn.name, construct=f"{cc_defs} capture")
        is_param = cc_defs in [a.arg for a in fn.args.args]
        run.ob("E2", bool(reset) or not is_param, "the running command code starts as None",
               f"`{cc_defs}` is also a parameter of the pump and is not reset to None before the pull loop: the errors of a decode "
               "that was handed a command code (a lone Response) carry that code although no command was decoded", module=mod,
               node=fn, func=fn.name, construct=f"{cc_defs} initial value")
        for a in assigns:
            if isinstance(a.value, ast.Constant) and a.value.value is None:
                run.ob("E2", True, f"command code initialised to None at L{a.lineno}")
                continue
            tests = enclosing_tests(a, fn)
            path_ok = False
            for t, in_body in tests:
                for c in conjuncts(t):
                    if in_body and isinstance(c, ast.Compare) and isinstance(c.ops[0], ast.Eq) and \
                            norm(c.left) == f"{roles.event_var}.path":
                        pv = c.comparators[0]
                        if isinstance(pv, ast.Name):
                            d = [x for x in walk_no_nested(fn) if isinstance(x, ast.Assign) and isinstance(x.targets[0], ast.Name)
                                 and x.targets[0].id == pv.id]
                            pv = d[0].value if len(d) == 1 else None
                        path_ok = pv is not None and "PathNode('commandCode')" in norm(pv) and "root_path" in norm(pv)
            extra = [norm(c) for t, in_body in tests if in_body for c in conjuncts(t)
                     if not (isinstance(c, ast.Compare) and norm(c.left) == f"{roles.event_var}.path")
                     and norm(c) != f"isinstance({roles.event_var}, MarshalEvent)"]
            run.ob("E2", not extra, f"command code capture at L{a.lineno} depends only on the event's path",
                   f"the capture is additionally guarded by {extra}: in a stream the running command code is not updated for every "
                   "command (the errors then carry the code of an earlier command)", module=mod, node=a, func=fn.name,
                   construct=f"{cc_defs} capture guard")
            ok = norm(a.value) == f"{roles.event_var}.value" and path_ok
            run.ob("E2", ok, f"command code taken from the <root>.commandCode event at L{a.lineno}",
                   f"the running command code is assigned from `{norm(a.value)}` not guarded by path == <root>.commandCode",
                   module=mod, node=a, func=fn.name, construct=f"{cc_defs} = {norm(a.value)}")
    else:
        run.ob("E2", False, "one running command-code variable", "the two errors use different command-code sources",
               module=mod, node=fn, func=fn.name, construct="command_code variable")
    run.floor("E1", 6)
    run.floor("E2", 3)


def mode_false(test, in_body, mode):
    """does being in this branch of `test` imply that the mode flag is False?"""
    if not in_body:
        if isinstance(test, ast.Name) and test.id == mode:
            return True
        if isinstance(test, ast.BoolOp) and isinstance(test.op, ast.Or):
            return any(isinstance(v, ast.Name) and v.id == mode for v in test.values)
        return False
    return any(isinstance(c, ast.UnaryOp) and isinstance(c.op, ast.Not) and isinstance(c.operand, ast.Name)
               and c.operand.id == mode for c in conjuncts(test))


def prev_sibling(stmt):
    p = getattr(stmt, "_parent", None)
    for fld in ("body", "orelse", "finalbody"):
        seq = getattr(p, fld, None)
        if isinstance(seq, list) and stmt in seq:
            i = seq.index(stmt)
            return seq[i - 1] if i > 0 else None
    return None


def reach_exit_without(cfg, starts, stop_ids):
    seen, stack = set(), list(starts)
    while stack:
        n = stack.pop()
        if n.id in seen or n.id in stop_ids:
            continue
        seen.add(n.id)
        if n is cfg.exit:
            return True
        if n.kind == "stmt" and isinstance(n.ast, ast.Raise):
            continue
        for _, s in n.succ:
            stack.append(s)
    return False
