"""C14 - the printers show every event and every byte exactly once, in order.

Q1 guard dominance: in both printers every load of .type/.path/.value on a value drawn from the
   event stream is dominated by `isinstance(_, MarshalEvent)` (must-dataflow over the CFG; for
   helper parameters the guard may sit at every call site instead).
Q2 linear consumption (typestate HELD/DISPOSED per pulled event) in pretty.unmarshal and
   pretty_list_elems: on every path each pulled event is disposed exactly once - formatted by
   pretty(), appended to the byte buffer that reaches the single row of the list parent, or
   returned to the caller who disposes it; a pull never overwrites a HELD event.
Q3 FOLLOW sets from L: a byte-list parent event is never the event directly following another
   list's elements (its predecessor is its count/size primitive or the union container), so the
   event handed back by pretty_list_elems never needs folding itself; every 1-byte list element
   type is BYTE (the folding test is identity with BYTE).
Q4 row shape: indentation is len(path)-1, the value column is the value's text form, the hex
   column is binary_unmarshal of that event, attribute rows get path+PathNode(attr), no type and
   no hex column, and are produced only for events printed by the main loop (not list elements).
Not decided: the rendered text.
"""
from __future__ import annotations

import ast

from .. import ctx, paths
from ..cfg import CFG
from ..flow import yields_in
from ..pattern import canon, canon_all
from ..project import AnalysisError, call_name, kwarg, norm, walk_no_nested
from ..specmodel import ClassV, ListT

PRETTY = "tpmstream.io.pretty.unmarshal"
EVENTS = "tpmstream.io.events.unmarshal"
ATTRS = ("type", "path", "value")


# ------------------------------------------------------------------------------ Q1
def isinstance_guards(test, positive=True, flags=None):
    """variables known to be MarshalEvent when `test` evaluates to `positive`.
    `flags`: {flag name: set of variables} for boolean locals assigned from such a test."""
    out = set()
    if isinstance(test, ast.UnaryOp) and isinstance(test.op, ast.Not):
        return isinstance_guards(test.operand, not positive, flags)
    if isinstance(test, ast.BoolOp):
        if isinstance(test.op, ast.And) and positive:
            for v in test.values:
                out |= isinstance_guards(v, True, flags)
        if isinstance(test.op, ast.Or) and not positive:
            for v in test.values:
                out |= isinstance_guards(v, False, flags)
        return out
    if positive and flags and isinstance(test, ast.Name) and test.id in flags:
        return set(flags[test.id])
    if positive and isinstance(test, ast.Call) and call_name(test) == "isinstance" and len(test.args) == 2 \
            and isinstance(test.args[0], ast.Name) and norm(test.args[1]) == "MarshalEvent":
        out.add(test.args[0].id)
    return out


def known_marshal(cfg: CFG, entry_known=frozenset()):
    """must-analysis: IN[node] = set of variables known to hold a MarshalEvent."""
    allv = set()
    for n in cfg.nodes:
        if n.kind == "test":
            allv |= isinstance_guards(n.ast, True) | isinstance_guards(n.ast, False)
        if n.kind == "stmt" and isinstance(n.ast, ast.Assign) and len(n.ast.targets) == 1 and isinstance(n.ast.targets[0], ast.Name):
            for v in isinstance_guards(n.ast.value, True):
                allv.add(v)
                allv.add(f"flag:{n.ast.targets[0].id}:{v}")
    allv |= set(entry_known)
    preds = {n.id: [] for n in cfg.nodes}
    for n in cfg.nodes:
        for lab, s in n.succ:
            preds[s.id].append((n, lab))
        if n.kind in ("stmt", "test", "for"):
            for h in cfg.handlers_of(n):
                preds[h.id].append((n, "exc"))
    IN = {n.id: set(allv) for n in cfg.nodes}
    IN[cfg.entry.id] = set(entry_known)

    def flags_of(state):
        fl = {}
        for x in state:
            if x.startswith("flag:"):
                _, f, v = x.split(":")
                fl.setdefault(f, set()).add(v)
        return fl

    def out_of(n, lab):
        s = set(IN[n.id])
        fl = flags_of(s)
        if n.kind == "test":
            if lab == "true":
                s |= isinstance_guards(n.ast, True, fl)
            elif lab == "false":
                s |= isinstance_guards(n.ast, False, fl)
        # kills
        killed = set()
        if n.kind == "for":
            killed |= {x.id for x in ast.walk(n.ast.target) if isinstance(x, ast.Name)}
        elif n.kind == "stmt" and isinstance(n.ast, (ast.Assign, ast.AugAssign, ast.AnnAssign)):
            tg = n.ast.targets if isinstance(n.ast, ast.Assign) else [n.ast.target]
            for t in tg:
                killed |= {x.id for x in ast.walk(t) if isinstance(x, ast.Name)}
        elif n.kind == "handler" and n.ast.name:
            killed.add(n.ast.name)
        def drop(st):
            return {x for x in st if x not in killed and not (x.startswith("flag:") and (x.split(":")[1] in killed or x.split(":")[2] in killed))}
        if lab == "exc":
            return drop(set(IN[n.id]))
        s = drop(s)
        # a boolean local assigned from a guard expression remembers what it implies
        if n.kind == "stmt" and isinstance(n.ast, ast.Assign) and len(n.ast.targets) == 1 and isinstance(n.ast.targets[0], ast.Name):
            for v in isinstance_guards(n.ast.value, True, flags_of(set(IN[n.id]))):
                if v != n.ast.targets[0].id:
                    s.add(f"flag:{n.ast.targets[0].id}:{v}")
        return s

    changed = True
    while changed:
        changed = False
        for n in cfg.nodes:
            if n is cfg.entry:
                continue
            ps = [out_of(p, lab) for p, lab in preds[n.id]]
            new = set.intersection(*ps) if ps else set(allv)
            if new != IN[n.id]:
                IN[n.id] = new
                changed = True
    return IN


def guarded_in_expr(use, var, flags=None):
    """is the attribute load inside a BoolOp-And after an isinstance(var, MarshalEvent) conjunct
    (or after `not isinstance` in an Or)?"""
    child, p = use, getattr(use, "_parent", None)
    while p is not None and not isinstance(p, ast.stmt):
        if isinstance(p, ast.BoolOp):
            idx = next(i for i, v in enumerate(p.values) if v is child or any(x is child for x in ast.walk(v)))
            for v in p.values[:idx]:
                if isinstance(p.op, ast.And) and var in isinstance_guards(v, True, flags):
                    return True
                if isinstance(p.op, ast.Or) and var in isinstance_guards(v, False, flags):
                    return True
        if isinstance(p, ast.IfExp) and (child is p.body) and var in isinstance_guards(p.test, True):
            return True
        child, p = p, getattr(p, "_parent", None)
    return False


def event_vars(fn, stream_params):
    """variables that hold items drawn from the event stream"""
    out = set()
    for n in walk_no_nested(fn):
        if isinstance(n, ast.For) and isinstance(n.target, ast.Name):
            it = n.iter
            src = it.args[0] if isinstance(it, ast.Call) and call_name(it) == "iter" and it.args else it
            if isinstance(src, ast.Name) and src.id in stream_params:
                out.add(n.target.id)
        if isinstance(n, ast.Assign) and isinstance(n.targets[0], ast.Name):
            v = n.value
            if isinstance(v, ast.Call) and call_name(v) == "next" and v.args and isinstance(v.args[0], ast.Name) and v.args[0].id in stream_params:
                out.add(n.targets[0].id)
            if isinstance(v, ast.YieldFrom) and isinstance(v.value, ast.Call) and call_name(v.value) == "pretty_list_elems":
                out.add(n.targets[0].id)
    return out


def q1(run, project):
    n_uses = 0
    for modname in (PRETTY, EVENTS):
        mod = project.module(modname)
        funcs = {q: f for q, f in mod.functions().items()}
        # stream-valued parameters: `events`, `events_generator`; event-valued parameters: annotated/used as events
        info = {}
        for q, fn in funcs.items():
            params = [a.arg for a in fn.args.args]
            stream = {p for p in params if p in ("events", "events_generator")}
            # `events = iter(events)` keeps the name a stream
            evp = {a.arg for a in fn.args.args if a.annotation is not None and norm(a.annotation) in ("MarshalEvent", "Event", "InfoEvent")}
            evp |= {p for p in params if p in ("event", "parent_event", "child_event", "parent")}
            info[q] = (fn, stream, evp)
        # entry knowledge for event parameters: guarded at every call site?
        entry_known = {q: set() for q in funcs}
        for _round in range(3):
            for q, (fn, stream, evp) in info.items():
                for p in evp:
                    sites = []
                    for q2, (fn2, _, _) in info.items():
                        cfg2 = CFG(fn2)
                        IN2 = known_marshal(cfg2, frozenset(entry_known[q2]))
                        for c in walk_no_nested(fn2):
                            if isinstance(c, ast.Call) and call_name(c) == q.split(".")[-1]:
                                idx = [a.arg for a in fn.args.args].index(p)
                                arg = c.args[idx] if idx < len(c.args) else kwarg(c, p)
                                node = cfg2.node_of(c)
                                ok = isinstance(arg, ast.Name) and node is not None and (arg.id in IN2[node.id] or guarded_in_expr(c, arg.id))
                                sites.append(ok)
                    if sites and all(sites):
                        entry_known[q].add(p)
        for q, (fn, stream, evp) in info.items():
            cfg = CFG(fn)
            IN = known_marshal(cfg, frozenset(entry_known[q]))
            evs = event_vars(fn, stream) | evp
            for n in walk_no_nested(fn):
                if isinstance(n, ast.Attribute) and n.attr in ATTRS and isinstance(n.value, ast.Name) and n.value.id in evs \
                        and isinstance(n.ctx, ast.Load):
                    node = cfg.node_of(n)
                    if node is None:
                        raise AnalysisError(f"Q1: no CFG node for {norm(n)} in {q}")
                    fl = {}
                    for x in IN[node.id]:
                        if x.startswith("flag:"):
                            fl.setdefault(x.split(":")[1], set()).add(x.split(":")[2])
                    ok = n.value.id in IN[node.id] or guarded_in_expr(n, n.value.id, fl)
                    n_uses += 1
                    stmt = n
                    while not isinstance(stmt, ast.stmt):
                        stmt = stmt._parent
                    run.ob("Q1", ok, f"{modname.split('.')[-2]}.{q} L{n.lineno}: {norm(n)} is guarded",
                           f"`{norm(n)}` is read from an item of the event stream that may be a WarningEvent/InfoEvent (no "
                           "`isinstance(_, MarshalEvent)` on every path to it): AttributeError on the first warning", module=mod,
                           node=stmt, func=q, construct=f"{norm(n)} in `{norm(stmt).splitlines()[0][:70]}`")
    run.require(n_uses >= 15, f"Q1: only {n_uses} event attribute reads found")


# ------------------------------------------------------------------------------ Q2
def q2(run, project):
    mod = project.module(PRETTY)
    ple = mod.functions().get("pretty_list_elems")
    um = mod.functions().get("unmarshal")
    if ple is None or um is None:
        raise AnalysisError("Q2: pretty.unmarshal / pretty_list_elems not found")
    gen = ple.args.args[1].arg
    parent = ple.args.args[0].arg
    cfg = CFG(ple)
    # discover the pulled variable and the emptiness flag
    pulls = [n for n in cfg.nodes if n.kind == "stmt" and isinstance(n.ast, ast.Assign) and isinstance(n.ast.value, ast.Call)
             and call_name(n.ast.value) == "next" and norm(n.ast.value.args[0]) == gen]
    for_pulls = [n for n in cfg.nodes if n.kind == "for" and norm(n.ast.iter) == gen and isinstance(n.ast.target, ast.Name)]
    if not pulls and not for_pulls:
        raise AnalysisError("Q2: pretty_list_elems pulls no event from events_generator")
    pvars = {n.ast.targets[0].id for n in pulls} | {n.ast.target.id for n in for_pulls}
    if len(pvars) != 1:
        raise AnalysisError(f"Q2: pulled events are held in several variables {sorted(pvars)}")
    var = pvars.pop()
    flags = {norm(n.ast.targets[0]) for n in cfg.nodes if n.kind == "stmt" and isinstance(n.ast, ast.Assign)
             and isinstance(n.ast.value, ast.Constant) and isinstance(n.ast.value.value, bool)}
    flag = next(iter(flags)) if len(flags) == 1 else None

    def disposal(stmt, v):
        """does this statement dispose variable v? -> kind"""
        if isinstance(stmt, ast.Expr) and isinstance(stmt.value, ast.YieldFrom) and isinstance(stmt.value.value, ast.Call) \
                and call_name(stmt.value.value) == "pretty" and norm(stmt.value.value.args[0]) == v:
            return "pretty"
        if isinstance(stmt, ast.AugAssign) and isinstance(stmt.op, ast.Add) and norm(stmt.value) in (f"{v}.value.to_bytes()", f"to_bytes({v})"):
            return "buffer"   # (to_bytes(event) is event.value.to_bytes() for a list element: C02-B2)
        if isinstance(stmt, ast.Return) and stmt.value is not None and norm(stmt.value) == v:
            return "return"
        if isinstance(stmt, ast.Expr) and isinstance(stmt.value, ast.Yield) and isinstance(stmt.value.value, ast.Call) \
                and call_name(stmt.value.value) == "format" and any(norm(a).startswith(v + ".") for a in stmt.value.value.args):
            return "row"
        return None

    # state: (child status, parent status, flag value)
    viol = []
    seen = set()
    work = [(cfg.entry, ("NONE", "HELD", None, None, "ANY"))]
    bufvars = set()
    while work:
        node, st = work.pop()
        if (node.id, st) in seen:
            continue
        seen.add((node.id, st))
        ch, pa, fl, carry, kind_ = st
        if node is cfg.exit:
            if ch == "HELD":
                viol.append((node, "a pulled event is still held when the function returns (dropped)", None))
            if carry is not None:
                viol.append((node, f"the event moved to `{carry}` is not handed back when the function returns (dropped)", None))
            continue
        if node is cfg.raise_exit:
            continue
        if node.kind == "test":
            t = node.ast
            for lab, s in node.succ:
                outcome = lab == "true"
                if isinstance(t, ast.Constant) and bool(t.value) != outcome:
                    continue
                neg, tt = False, t
                while isinstance(tt, ast.UnaryOp) and isinstance(tt.op, ast.Not):
                    neg, tt = not neg, tt.operand
                if flag and norm(tt) == flag and fl is not None:
                    if (fl != neg) != outcome:
                        continue
                if isinstance(tt, ast.Call) and call_name(tt) == "isinstance" and len(tt.args) == 2 and norm(tt.args[0]) == var \
                        and norm(tt.args[1]) == "MarshalEvent":
                    is_elem = outcome != neg
                    if kind_ != "ANY" and (kind_ == "ELEM") != is_elem:
                        continue  # decided earlier on this path
                    work.append((s, (ch, pa, fl, carry, "ELEM" if is_elem else "OTHER")))
                    continue
                work.append((s, st))
            continue
        if node.kind == "for" and node in for_pulls:
            for lab, s in node.succ:
                if lab == "iter":
                    if ch == "HELD":
                        viol.append((node, f"`{var}` is overwritten by the next pulled event before it was shown (event dropped)", node.ast))
                    work.append((s, ("HELD", pa, fl, carry, "ANY")))
                else:
                    # exhausted: the loop variable keeps the last event it was bound to
                    work.append((s, st))
            continue
        if node.kind in ("entry", "handler", "for"):
            for lab, s in node.succ:
                work.append((s, st))
            continue
        a = node.ast
        nst = st
        if isinstance(a, ast.Assign) and norm(a.targets[0]) == var:
            if isinstance(a.value, ast.Call) and call_name(a.value) == "next":
                if ch == "HELD":
                    viol.append((node, f"`{var}` is overwritten by the next pulled event before it was shown (event dropped)", a))
                # normal edge: HELD; exception edge (StopIteration): unchanged
                for lab, s in node.succ:
                    work.append((s, ("HELD", pa, fl, carry, "ANY")))
                for h in cfg.handlers_of(node):
                    work.append((h, (ch if ch != "HELD" else "DISPOSED", pa, fl, carry, kind_)))
                continue
            if isinstance(a.value, ast.Constant) and a.value.value is None:
                nst = ("NONE", pa, fl, carry, kind_)
        elif isinstance(a, ast.Assign) and flag and norm(a.targets[0]) == flag and isinstance(a.value, ast.Constant):
            if a.value.value is False and kind_ != "ELEM":
                viol.append((node, f"the list is marked as having element rows (`{flag} = False`) by an event that is not known to be a "
                             "list element (e.g. a warning): an empty list followed by a warning then loses its own row", a))
            nst = (ch, pa, a.value.value, carry, kind_)
        elif isinstance(a, ast.Assign) and len(a.targets) == 1 and isinstance(a.targets[0], ast.Name) and a.targets[0].id != var \
                and isinstance(a.value, ast.Name) and a.value.id == var:
            # the held event moves to another name, which has to be handed back
            if ch == "DISPOSED":
                viol.append((node, f"`{var}` is kept for handing back although it was already shown", a))
            if carry is not None:
                viol.append((node, f"the event moved to `{carry}` is overwritten (dropped)", a))
            nst = ("DISPOSED" if ch == "HELD" else ch, pa, fl, a.targets[0].id if ch == "HELD" else carry, kind_)
        elif isinstance(a, ast.Assign) and len(a.targets) == 1 and isinstance(a.targets[0], ast.Name) and carry is not None \
                and a.targets[0].id == carry:
            viol.append((node, f"the event moved to `{carry}` is overwritten (dropped)", a))
            nst = (ch, pa, fl, None, kind_)
        else:
            k = disposal(a, var)
            if k:
                if ch == "DISPOSED":
                    viol.append((node, f"`{var}` is shown twice", a))
                if ch == "NONE" and k != "return":
                    viol.append((node, f"`{var}` is used although nothing is held", a))
                nst = ("DISPOSED" if ch != "NONE" else "NONE", pa, fl, carry, kind_)
            kp = disposal(a, parent)
            if kp:
                if pa == "DISPOSED":
                    viol.append((node, "the list parent is shown twice", a))
                nst = (nst[0], "DISPOSED", fl, carry, kind_)
            if isinstance(a, ast.Return):
                # parent must have been shown unless the list had element rows (non-byte list, not empty)
                if nst[1] == "HELD" and fl is not False:
                    viol.append((node, "the list parent event is not shown on this exit (neither its row nor element rows)", a))
                if nst[0] == "HELD":
                    viol.append((node, f"`{var}` is neither shown nor handed back on this exit (event dropped)", a))
                if carry is not None and not (a.value is not None and norm(a.value) == carry):
                    viol.append((node, f"the event moved to `{carry}` is not handed back on this exit (event dropped)", a))
                work.append((cfg.exit, ("NONE", nst[1], fl, None, kind_)))
                continue
        for lab, s in node.succ:
            work.append((s, nst))
    run.ob("Q2", not viol, f"pretty_list_elems: every pulled event is disposed exactly once ({len(seen)} node-states)",
           viol[0][1] if viol else "", module=mod, node=viol[0][2] or ple if viol else ple, func=ple.name,
           construct=(norm(viol[0][2]).splitlines()[0][:80] if viol and viol[0][2] is not None else "pretty_list_elems exits"))
    for v in viol[1:4]:
        run.ob("Q2", False, "pretty_list_elems", v[1], module=mod, node=v[2] or ple, func=ple.name,
               construct=(norm(v[2]).splitlines()[0][:80] if v[2] is not None else "pretty_list_elems exits"))
    # the byte buffer reaches exactly one row of the parent
    rows = [y for y in walk_no_nested(ple) if isinstance(y, ast.Yield) and isinstance(y.value, ast.Call) and call_name(y.value) == "format"]
    ok = len(rows) == 1 and len(rows[0].value.args) == 4 and norm(rows[0].value.args[0]) == f"{parent}.type" and \
        norm(rows[0].value.args[1]) == f"{parent}.path"
    bufname = norm(rows[0].value.args[2]) if rows and len(rows[0].value.args) == 4 else None
    augs = [s for s in walk_no_nested(ple) if isinstance(s, ast.AugAssign) and norm(s.target) == bufname]
    run.ob("Q2", ok and len(augs) == 1 and norm(augs[0].value) in (f"{var}.value.to_bytes()", f"to_bytes({var})"),
           "byte list: all element bytes are collected into the single row of the parent",
           "the folded row does not carry exactly the concatenated element bytes", module=mod, node=rows[0] if rows else ple,
           func=ple.name, construct="byte-list row")
    # main loop of unmarshal
    cfg = CFG(um)
    loops = [n for n in cfg.nodes if n.kind == "for"]
    if len(loops) != 1:
        raise AnalysisError("Q2: main loop of pretty.unmarshal not found")
    ev = loops[0].ast.target.id
    body = loops[0].ast.body
    pr = [s for s in body if isinstance(s, ast.Expr) and isinstance(s.value, ast.YieldFrom) and isinstance(s.value.value, ast.Call)
          and call_name(s.value.value) == "pretty" and norm(s.value.value.args[0]) == ev]
    run.ob("Q2", len(pr) == 1, "main loop: every event reaching the bottom of the loop is printed once",
           f"{len(pr)} unconditional pretty(event) statements in the loop body", module=mod, node=loops[0].ast, func=um.name,
           construct="main loop pretty(event)")
    fold = [s for s in body if isinstance(s, ast.If) and any(isinstance(c, ast.Call) and call_name(c) == "pretty_list_elems" for c in ast.walk(s))]
    ok = len(fold) == 1 and body.index(fold[0]) < (body.index(pr[0]) if pr else 99)
    if ok:
        f = fold[0]
        conj = {norm(v) for v in (f.test.values if isinstance(f.test, ast.BoolOp) else [f.test])}
        ok = conj == canon_all(f"isinstance({ev}, MarshalEvent)", f"is_list({ev}.type)", f"{ev}.value is ...")
        asg = [s for s in f.body if isinstance(s, ast.Assign)]
        ok = ok and len(asg) == 1 and norm(asg[0]) == canon(f"{ev} = yield from pretty_list_elems({ev}, events)")
        ret = [s for s in f.body if isinstance(s, ast.If)]
        ok = ok and len(ret) == 1 and norm(ret[0].test) == f"{ev} is None" and [norm(x) for x in ret[0].body] == ["return"]
    run.ob("Q2", ok, "main loop: a list parent is folded and replaced by the event handed back (None = end of stream)",
           "the list-folding step of the main loop changed", module=mod, node=fold[0] if fold else loops[0].ast, func=um.name,
           construct="main loop list folding")
    skips = [n for n in ast.walk(loops[0].ast) if isinstance(n, (ast.Continue, ast.Break))]
    run.ob("Q2", not skips, "main loop: no event is skipped", "continue/break in the main loop", module=mod,
           node=skips[0] if skips else loops[0].ast, func=um.name, construct="main loop skip")
    it = [s for s in um.body if isinstance(s, ast.Assign) and norm(s) == "events = iter(events)"]
    run.ob("Q2", len(it) == 1 and norm(loops[0].ast.iter) == "events", "main loop and folding share one iterator",
           "events is not turned into a single shared iterator", module=mod, node=um, func=um.name, construct="shared iterator")


# ------------------------------------------------------------------------------ Q3
def q3(run, L):
    byte = L.struct_types.get("BYTE")
    if byte is None:
        raise AnalysisError("Q3: BYTE not found in L")
    n = 0
    types = dict(L.all)
    types["TPM2B_ENCRYPTED_PARAM"] = L.TPM2B_ENCRYPTED_PARAM
    for k, c in types.items():
        if not L.is_dataclass(c):
            continue
        fl = L.fields(c)
        for i, (fname, ft) in enumerate(fl):
            if not isinstance(ft, ListT):
                continue
            et = ft.elem
            if isinstance(et, ClassV) and L.is_primitive(et) and L.int_size(et) == 1:
                n += 1
                run.ob("Q3", et is byte, f"{k}.{fname}: 1-byte elements are BYTE",
                       f"list[{et.name}] has 1-byte elements but is not list[BYTE]: the printer folds only list[BYTE] into one row",
                       module=c.module, node=c.ann_nodes.get(fname, c.node), func=k, construct=f"{k}.{fname} element type")
                if c.has("_selected_by"):
                    pred = "union container event"
                    ok = True
                else:
                    ok = i > 0 and isinstance(fl[i - 1][1], ClassV) and L.is_primitive(fl[i - 1][1])
                    pred = fl[i - 1][0] if i > 0 else None
                run.ob("Q3", ok, f"{k}.{fname}: byte buffer directly follows {pred}",
                       "a byte-list parent can directly follow another list's elements: it would be handed back by the list "
                       "folder and printed element by element instead of as one row", module=c.module,
                       node=c.ann_nodes.get(fname, c.node), func=k, construct=f"{k}.{fname} predecessor")
    run.require(n >= 30, f"Q3: only {n} byte-list fields found in L")


# ------------------------------------------------------------------------------ Q4
class _NoColour(ast.NodeTransformer):
    def visit_JoinedStr(self, node):
        self.generic_visit(node)
        node.values = [v for v in node.values if not (isinstance(v, ast.FormattedValue) and v.format_spec is None
                                                      and norm(v.value).split(".")[0] in ("Fore", "Style", "Back"))]
        return node


def row_text(e):
    e = _NoColour().visit(paths.clone(e))
    ast.fix_missing_locations(e)
    return paths.text(paths.flatten(e))


def hex_part(t):
    i = t.find(".hex()")
    return t[max(0, i - 20):i + 12] if i >= 0 else ""


def q4(run, project):
    mod = project.module(PRETTY)
    fmt = mod.functions().get("format")
    pr = mod.functions().get("pretty")
    pa = mod.functions().get("pretty_attrs")
    um = mod.functions().get("unmarshal")
    if None in (fmt, pr, pa, um):
        raise AnalysisError("Q4: pretty helpers not found")
    p = [a.arg for a in fmt.args.args]
    # the row, as a function of the two column conditions (colour codes are not part of the row shape)
    T, P, B, V = p
    indent = f"{{'|   ' * (len({P}) - 1)}}"
    want_row = {}
    for has_bin in (True, False):
        for structural in (True, False):
            hexs = f"{{binascii.hexlify({B}).decode(): <20}}" if has_bin else "{'': <20}"
            val = "" if structural else f"{{{V}}}"
            src = f"f\"{{f'{{get_type_name({T})}}': <50}} {{f'{indent}.{{{P}[-1]}}': <64}} {hexs} {val}\""
            want_row[(has_bin, structural)] = row_text(paths.pattern_expr(src))
    fps = paths.summarise(mod, fmt)
    run.require(len(fps) >= 4, "Q4: fewer than four paths through format()")
    for fp in fps:
        hb, st_ = fp.truth(f"truthy {B}"), fp.truth(f"{V} is ...")
        label = " & ".join(("" if v else "not ") + a_ for a_, v, _ in fp.cond) or "always"
        if hb is None or st_ is None or fp.end != "return":
            run.ob("Q4", False, f"format [{label}]", "the row no longer depends on `binary` being empty and `value is ...` alone",
                   module=mod, node=fp.node or fmt, func="format", construct="format return")
            continue
        got = row_text(fp.value)
        want = want_row[(hb, st_)]
        if got != want:
            # which column differs?
            kind, why = "format return", "format return changed"
            alt_hex = want_row[(not hb, st_)]
            alt_val = want_row[(hb, not st_)]
            if got == alt_hex or hex_part(got) != hex_part(want):
                kind, why = "hex column", "hex column construction changed (hex column = hexlify(bytes) or empty)"
            elif got == alt_val or got.rsplit(" ", 1)[-1] != want.rsplit(" ", 1)[-1]:
                kind, why = "value column", "value column changed (the value's text form, empty for structural events)"
            elif "len(" not in got or f"len({P}) - 1" not in got:
                kind, why = "indent depth", "indentation is no longer the depth of the path"
            elif f"{P}[-1]" not in got:
                kind, why = "row label", "row label changed"
            run.ob("Q4", False, f"format [{label}]", f"{why}: row is `{got}`, expected `{want}`", module=mod, node=fp.node or fmt,
                   func="format", construct=kind)
        else:
            run.ob("Q4", True, f"format [{label}]: type | indent*depth .label | hex | value")
    # pretty(): one info row, or one field row whose hex column is the binary re-encoding of exactly this event
    e = pr.args.args[0].arg
    M, E3 = f"isinstance({e}, MarshalEvent)", f"{e}.value is ..."
    pps = paths.summarise(mod, pr)
    for pp in pps:
        label = " & ".join(("" if v else "not ") + a_ for a_, v, _ in pp.cond) or "always"
        m = pp.truth(M)
        fx = pp.effect_texts()
        if m is None:
            run.ob("Q4", False, f"pretty [{label}]", "rows no longer depend on `isinstance(event, MarshalEvent)`", module=mod,
                   node=pp.node or pr, func="pretty", construct="pretty info row")
        elif not m:
            run.ob("Q4", fx == [("yield", f"format_info({e})")], "warnings are shown as exactly one row", f"info-event row changed: {fx}",
                   module=mod, node=pp.node or pr, func="pretty", construct="pretty info row")
        else:
            st_ = pp.truth(E3)
            val = "''" if st_ else f"f'{{{e}.value}}'"
            want = [("yield", f"format({e}.type, {e}.path, b''.join(binary_unmarshal(({e},))), {val})")]
            alt = [("yield", f"format({e}.type, {e}.path, b''.join(binary_unmarshal(({e},))), str({e}.value))")]
            # (the binary front-end's unmarshal of the one-event list is to_bytes(event): C02-B3)
            want2 = [("yield", f"format({e}.type, {e}.path, to_bytes({e}), {val})")]
            # (the value itself may be handed over when format() puts it into the row through an f-string field - that is the
            # same text form, `format(value, "")`; Q4's row table above requires exactly that of format())
            raw = "''" if st_ else f"{e}.value"
            want3 = [("yield", f"format({e}.type, {e}.path, {b_}, {raw})") for b_ in (f"to_bytes({e})", f"b''.join(binary_unmarshal(({e},)))")]
            # (str(value) is NOT accepted: for handle types __str__ gives the bare number, __format__ the symbolic text - seed C14-agent5)
            run.ob("Q4", st_ is not None and (fx in (want, want2) or [fx[0]] in [[w] for w in want3] and len(fx) == 1),
                   "pretty(): hex column is the binary re-encoding of exactly this event; value is its text form",
                   f"pretty() row construction changed: [{label}] gives {fx}", module=mod, node=pp.node or pr, func="pretty",
                   construct="pretty row" if len(fx) == 1 else "pretty yields")
    # attribute rows
    ae = pa.args.args[0].arg
    rows = [y for y in walk_no_nested(pa) if isinstance(y, ast.Yield) and isinstance(y.value, ast.Call) and call_name(y.value) == "format"]
    bound = None
    if len(rows) == 1:
        # the call bound to format()'s own parameters (positional, keyword, defaults)
        fpar = [a.arg for a in fmt.args.args]
        fdef = dict(zip(fpar[len(fpar) - len(fmt.args.defaults):], fmt.args.defaults))
        c_ = rows[0].value
        bound = {fpar[i]: a_ for i, a_ in enumerate(c_.args) if i < len(fpar)}
        bound.update({k.arg: k.value for k in c_.keywords if k.arg in fpar})
        for k_, d_ in fdef.items():
            bound.setdefault(k_, d_)
    ok = bound is not None and len(bound) >= 3 and [norm(bound.get(p[0])) if bound.get(p[0]) is not None else None,
                                                   norm(bound.get(p[2])) if bound.get(p[2]) is not None else None] == ["None", "None"]
    if ok:
        # the row's path: the event's path extended by the attribute's name (through a local or in place)
        parg = bound.get(p[1])
        if isinstance(parg, ast.Name):
            pth = [s for s in walk_no_nested(pa) if isinstance(s, ast.Assign) and norm(s.targets[0]) == parg.id]
            parg = pth[0].value if len(pth) == 1 else None
        lp_ = rows[0]
        while lp_ is not None and not isinstance(lp_, ast.For):
            lp_ = getattr(lp_, "_parent", None)
        av = lp_.target.id if lp_ is not None and isinstance(lp_.target, ast.Name) else "attribute"
        ok = parg is not None and norm(parg) in (f"{ae}.path + PathNode({av}._name)", f"{ae}.path / PathNode({av}._name)")
    if not ok:
        # the row is not built in place from the attribute (rows prepared by a helper, a record per field ...): what the
        # printer yields for an attribute word is then folded over every attribute type of the layout (C17-M2's row fold:
        # one row per mask, no type, no hex column, the path extended by the mask's name, the bits under the mask)
        from ..report import RuleView
        from . import c17
        c17.m2_rows(RuleView(run, "M2", "Q4"), project, ctx.layout(project))
        run.info("Q4: attribute rows are not built in place; judged by folding pretty_attrs over every attribute type (C17-M2)")
    else:
        run.ob("Q4", ok, "attribute rows: path + PathNode(attr), no type, no hex column", "attribute row shape changed", module=mod,
               node=rows[0] if rows else pa, func="pretty_attrs", construct="attribute row")
        # Q10 (= C17-M2, rows): "attribute words additionally with their bit rows": what the rows built in place show - one row
        # per mask, the value's bits under the mask's ones, padded to the word's width - is decided by folding pretty_attrs
        # over every attribute type of the layout
        from ..report import RuleView
        from . import c17
        try:
            c17.m2_rows(RuleView(run, "M2", "Q10"), project, ctx.layout(project))
        except AnalysisError as ex:
            run.info(f"Q10: the bit rows could not be folded ({ex}); not judged here (C17 reports it)")
    # attribute rows only from the main loop, after the event's own row, for MarshalEvents with attributes()
    calls = []
    for q, fn in mod.functions().items():
        for c in walk_no_nested(fn):
            if isinstance(c, ast.Call) and call_name(c) == "pretty_attrs":
                calls.append((q, c))
    ok = len(calls) == 1 and calls[0][0] == "unmarshal"
    run.ob("Q4", ok, "attribute rows are produced only by the main loop (never for list elements)",
           f"pretty_attrs is called from {[q for q, _ in calls]}", module=mod, node=calls[0][1] if calls else um, func="unmarshal",
           construct="pretty_attrs call sites")
    if ok:
        c = calls[0][1]
        iff = c
        while not isinstance(iff, ast.If):
            iff = iff._parent
        conj = {norm(v) for v in (iff.test.values if isinstance(iff.test, ast.BoolOp) else [iff.test])}
        ev = norm(c.args[0])
        # the has-attributes test may sit at the call or open the callee (`if not hasattr(e.value, "attributes"): return`)
        pbody = [s_ for s_ in pa.body if not (isinstance(s_, ast.Expr) and isinstance(s_.value, ast.Constant))]
        if pbody and isinstance(pbody[0], ast.If) and norm(pbody[0].test) == f"not hasattr({ae}.value, 'attributes')" and not pbody[0].orelse \
                and isinstance(pbody[0].body[-1], ast.Return) and not any(isinstance(y_, (ast.Yield, ast.YieldFrom)) for y_ in ast.walk(pbody[0])):
            conj = conj | {f"hasattr({ev}.value, 'attributes')"}
        run.ob("Q4", {f"isinstance({ev}, MarshalEvent)", f"hasattr({ev}.value, 'attributes')"} <= conj and conj <= {
            f"isinstance({ev}, MarshalEvent)", f"hasattr({ev}.value, 'attributes')", "show_attributes"},
            "bit rows for every attribute word printed by the main loop", f"guard is {sorted(conj)}", module=mod, node=iff,
            func="unmarshal", construct="pretty_attrs guard")
        sa = [s for s in mod.tree.body if isinstance(s, ast.Assign) and norm(s.targets[0]) == "show_attributes"]
        run.ob("Q4", len(sa) == 1 and norm(sa[0].value) == "True", "attribute rows are enabled", "show_attributes is not True",
               module=mod, node=sa[0] if sa else mod.tree, func="<module>", construct="show_attributes")


def q5(run, project):
    """the list folder's mode is decided by the element type: the elements of a byte list (element type BYTE) are collected
    into the one row of their parent, the elements of every other list get a row each; an element belongs to the list when it
    has the parent's path up to an index.  Stated over the path summaries of pretty_list_elems (which of the two modes a path
    runs in, under which outcome of the element-type test) and the body of the membership test."""
    mod = project.module(PRETTY)
    ple = mod.functions().get("pretty_list_elems")
    parent, gen = ple.args.args[0].arg, ple.args.args[1].arg
    S = paths.Summariser(mod, ple)
    ps = [p for p in S.paths() if p.end != "raise"]

    def subs_of(p):
        """[(sub-path of a pulling loop, event variable)]"""
        out = []
        for lid, lp in p.loops.items():
            lnode = next((n_ for k, _e, n_ in p.effects if k == "loop" and id(n_) == lid), None)
            tv = lnode.target.id if isinstance(lnode, ast.For) and isinstance(lnode.target, ast.Name) and norm(lnode.iter) == gen else None
            for b in lp:
                ev = [norm(e.targets[0]) for k, e, _n in b.effects if k == "bind" and isinstance(e, ast.Assign) and isinstance(e.value, ast.Call)
                      and call_name(e.value) == "next"]
                if ev or tv:
                    out.append((b, ev[0] if ev else tv))
        return out
    all_atoms = {a for p in ps for a, _v, _ in p.cond} | {a for p in ps for b, _ in subs_of(p) for a, _v, _ in b.cond}
    byte_atoms = all_atoms & {f"{parent}.type.__args__[0] is BYTE", f"{parent}.type.__args__[0] == BYTE", f"{parent}.type == list[BYTE]",
                              f"{parent}.type is list[BYTE]"}
    if len(byte_atoms) != 1:
        raise AnalysisError(f"Q5: the element-type test of pretty_list_elems was not found among {sorted(all_atoms)[:8]}")
    BA = byte_atoms.pop()
    n = 0
    for p in ps:
        lab = " & ".join(("" if v else "not ") + a for a, v, _ in p.cond if not a.startswith(("loop@", "try@"))) or "always"
        il = p.truth(f"is_list({parent}.type)")
        pt = p.truth(BA)
        prow = [paths.text(e) for k, e, _n in p.effects if k == "yield" and call_name(e) == "format"]
        seen_sub = set()
        for sub, v in subs_of(p):
            if sub.truth(f"isinstance({v}, MarshalEvent)") is not True or sub.end not in ("fall", "continue"):
                continue   # (an element of the list is an event after which the folder goes on pulling)
            t = sub.truth(BA) if sub.truth(BA) is not None else pt
            rows = [paths.text(e) for k, e, _n in sub.effects if k == "yieldfrom" and call_name(e) == "pretty"]
            enc = (f"{v}.value.to_bytes()", f"to_bytes({v})")   # (to_bytes(event) is event.value.to_bytes() for a list element: C02-B2)
            folded = [k_ for k_, e_ in sub.env.items() if isinstance(e_, ast.AST) and any(x in paths.text(e_) for x in enc)] + \
                [1 for k, e, _n in sub.effects if k == "update" and any(x in paths.text(e) for x in enc)]
            got = "elements" if rows == [f"pretty({v})"] and not folded else "bytes" if folded and not rows else f"rows {rows}, folded into {folded}"
            key = (t, got)
            if key in seen_sub:
                continue
            seen_sub.add(key)
            sl = " & ".join(("" if v_ else "not ") + a for a, v_, _ in sub.cond if not a.startswith(("loop@", "try@")))
            n += 1
            if t is None and il is not False:
                run.ob("Q5", False, f"pretty_list_elems [{lab[:60]}] element [{sl[:60]}]", f"on the path [{lab}], element step [{sl}], the list "
                       f"folder treats the element as `{got}` without having tested the element type (`{BA}`): byte buffers and other lists are "
                       "treated alike", module=mod, node=sub.node or ple, func="pretty_list_elems", construct="list folding mode")
                continue
            want = "bytes" if t and il is not False else "elements"
            run.ob("Q5", got == want, f"pretty_list_elems [{lab[:60]}] element [{sl[:60]}]: {want}",
                   f"on the path [{lab}], element step [{sl}], the list folder treats the elements as `{got}`; a list whose element type "
                   f"{'is' if want == 'bytes' else 'is not'} BYTE must be shown as `{want}` ("
                   + ("one row holding all its bytes" if want == "bytes" else "one row per element") + ")", module=mod, node=sub.node or ple,
                   func="pretty_list_elems", construct="list folding mode")
        # the collected row: exactly once for a byte list, never otherwise
        if pt is not None or il is False:
            wantrow = bool(pt) and il is not False
            okrow = (len(prow) == 1 and prow[0].startswith(f"format({parent}.type, {parent}.path, ")) if wantrow else not prow
            n += 1
            run.ob("Q5", okrow, f"pretty_list_elems [{lab[:80]}]: {'one collected row' if wantrow else 'no collected row'}",
                   f"on the path [{lab}] the list folder emits the collected rows {prow}; a list whose element type "
                   f"{'is' if wantrow else 'is not'} BYTE gets {'exactly one row built from the parent and the collected bytes' if wantrow else 'none'}",
                   module=mod, node=p.node or ple, func="pretty_list_elems", construct="list folding row")
        elif prow:
            n += 1
            run.ob("Q5", False, f"pretty_list_elems [{lab[:80]}]: collected row", f"on the path [{lab}] a collected row {prow} is emitted without "
                   f"the element type (`{BA}`) having been tested", module=mod, node=p.node or ple, func="pretty_list_elems",
                   construct="list folding row")
    run.require(n >= 3, f"Q5: only {n} obligations on pretty_list_elems")
    # the folder reads the elements: every completing path runs a pulling loop
    for p in ps:
        if not subs_of(p):
            lab = " & ".join(("" if v else "not ") + a for a, v, _ in p.cond if not a.startswith(("loop@", "try@"))) or "always"
            run.ob("Q5", False, f"pretty_list_elems [{lab[:80]}] pulls the elements", f"on the path [{lab}] the list folder returns without "
                   "pulling from the event stream (its loop never runs): the elements stay unread, and a None result ends the printing",
                   module=mod, node=p.node or ple, func="pretty_list_elems", construct="list folding loop")
    # the parent of an element-wise list gets its own row exactly when no element was shown (flag idiom: a boolean local that
    # starts true, is cleared where an element row is emitted and is tested where the folder leaves)
    parent_row = f"pretty({parent})"
    exits = []   # (path-ish, label) where the folder leaves in elements mode
    for p in ps:
        if p.truth(BA) is True:
            continue
        for sub, v in subs_of(p):
            if sub.end in ("return", "break") and sub.truth(BA) is not True:
                exits.append(sub)
    flags = {a[7:] for e_ in exits for a, _v, _ in e_.cond if a.startswith("truthy ")}
    inits = {norm(a_.targets[0]): a_.value.value for a_ in ple.body if isinstance(a_, ast.Assign) and isinstance(a_.value, ast.Constant)
             and isinstance(a_.value.value, bool)}
    flags = (flags & set(inits)) or (set(inits) if len(inits) == 1 else set())
    if len(flags) == 1:
        F = flags.pop()
        run.ob("Q5", inits[F] is True, f"`{F}` starts true (no element shown yet)", f"`{F}` starts as {inits[F]}", module=mod, node=ple,
               func="pretty_list_elems", construct="empty-list flag")
        for p in ps:
            for sub, v in subs_of(p):
                t = sub.truth(BA) if sub.truth(BA) is not None else p.truth(BA)
                if t is True:
                    continue
                shows = [1 for k, e, _n in sub.effects if k == "yieldfrom" and paths.text(e) == f"pretty({v})"]
                member_ = sub.truth(f"isinstance({v}, MarshalEvent)") is True and sub.end in ("fall", "continue")
                sl = " & ".join(("" if v_ else "not ") + a for a, v_, _ in sub.cond if not a.startswith(("loop@", "try@")))
                if member_ and shows:
                    fv = sub.env.get(F)
                    run.ob("Q5", isinstance(fv, ast.Constant) and fv.value is False, f"element step [{sl[:70]}] clears `{F}`",
                           f"on the element step [{sl}] an element row is emitted but `{F}` is not cleared: the parent of a non-empty "
                           "list is shown as well (a row for an event that is represented by its elements)", module=mod, node=sub.node or ple,
                           func="pretty_list_elems", construct="empty-list flag")
                if sub.end in ("return", "break") and sub.truth(f"truthy {F}") is not None:
                    has = [1 for k, e, _n in sub.effects if k == "yieldfrom" and paths.text(e) == parent_row]
                    run.ob("Q5", bool(has) == sub.truth(f"truthy {F}"), f"leaving step [{sl[:70]}]: parent row iff no element was shown",
                           f"on the leaving step [{sl}] the parent's own row is {'emitted' if has else 'not emitted'} although `{F}` is "
                           f"{sub.truth(f'truthy {F}')}", module=mod, node=sub.node or ple, func="pretty_list_elems", construct="empty-list row")
    else:
        run.info("Q5: the empty-list flag idiom was not recognised in pretty_list_elems; the parent-row rule is not applied to this form")
    # membership: same path up to the index.  The test is whatever distinguishes "an element of this list" on the element paths
    # above: a helper called with (parent, event), or the comparisons themselves.
    member = set()
    evname = None
    for p in ps:
        for sub, ev0 in subs_of(p):
            if sub.truth(f"isinstance({ev0}, MarshalEvent)") is not True or sub.end not in ("fall", "continue"):
                continue
            evname = ev0
            member.add(frozenset((a, v) for a, v, _ in sub.cond if not a.startswith(("isinstance(", "truthy ", "try@", "loop@")) and a != BA))
    if not member or not evname:
        raise AnalysisError("Q5: the membership test of the list folder was not found")
    if len(member) > 1:
        run.ob("Q5", False, "one membership test for both kinds of list", f"the events the folder keeps pulling after (= takes for elements "
               f"of the list) are selected differently on different paths: {sorted(map(sorted, member))}", module=mod, node=ple,
               func="pretty_list_elems", construct="list membership")
        return
    atoms = sorted(member.pop())
    cmps, node_, fname = None, ple, "pretty_list_elems"
    if len(atoms) == 1 and atoms[0][1] is True:
        c0 = ast.parse(atoms[0][0], mode="eval").body
        if isinstance(c0, ast.Call) and isinstance(c0.func, ast.Name) and len(c0.args) == 2:
            ic = next((f_ for f_ in ast.walk(ple) if isinstance(f_, ast.FunctionDef) and f_.name == c0.func.id), None) or mod.functions().get(c0.func.id)
            if ic is None:
                raise AnalysisError(f"Q5: the membership test {c0.func.id} was not found")
            rets = [r for r in ast.walk(ic) if isinstance(r, ast.Return)]
            e = rets[0].value if len(rets) == 1 else None
            if not (isinstance(e, ast.BoolOp) and all(isinstance(c, ast.Compare) and len(c.ops) == 1 for c in e.values)):
                raise AnalysisError(f"Q5: {c0.func.id} is no longer a combination of comparisons of the two paths")
            ren = {x.arg: norm(a_) for x, a_ in zip(ic.args.args, c0.args)}

            class _R(ast.NodeTransformer):
                def visit_Name(self, n_):
                    return ast.copy_location(ast.parse(ren[n_.id], mode="eval").body, n_) if n_.id in ren else n_
            e = _R().visit(paths.clone(e))
            cmps = [(c, True) for c in e.values] if isinstance(e.op, ast.And) else [(e, True)]
            node_, fname = ic, ic.name
    if cmps is None:
        cmps = [(ast.parse(a, mode="eval").body, v) for a, v in atoms]

    def side(c, truth):
        if not (isinstance(c, ast.Compare) and len(c.ops) == 1):
            return (norm(c), str(truth))
        op = type(c.ops[0]).__name__
        if not truth:
            op = {"Eq": "NotEq", "NotEq": "Eq"}.get(op, "not " + op)
        return tuple(sorted((norm(c.left), norm(c.comparators[0])))) + (op,)
    got = {side(c, v) for c, v in cmps}
    a, b = parent, evname
    want = {tuple(sorted((f"{a}.path[:-1]", f"{b}.path[:-1]"))) + ("Eq",), tuple(sorted((f"{a}.path[-1].name", f"{b}.path[-1].name"))) + ("Eq",)}
    run.ob("Q5", got == want, "a list element has the parent's path up to the index",
           f"an event counts as an element of the list when {sorted(got)}: membership in the list is no longer `same enclosing path and "
           "same field name` - rows of other fields are swallowed into the list or elements are left out", module=mod, node=node_, func=fname,
           construct="list membership")


def q8(run, project):
    """a byte buffer is shown as *one* row: the text column of the collected row is the buffer passed through a translation
    table, and that table maps every byte value to one printable ASCII character (0x20..0x7e) - a control character (a
    newline, a carriage return) would break the row, a byte >= 0x80 would make `.decode()` fail.  The table - a literal or a
    constant computed from `string` constants - is folded by the mini interpreter."""
    import string as _string
    from ..minieval import Imprecise, Interp, NeedBit, Raised
    mod = project.module(PRETTY)
    ple = mod.functions().get("pretty_list_elems")
    tops = {norm(a.targets[0]): a.value for a in mod.tree.body if isinstance(a, ast.Assign) and len(a.targets) == 1 and isinstance(a.targets[0], ast.Name)}
    from ..minieval import TypeRef
    strmod = TypeRef("string", attrs={k: getattr(_string, k) for k in dir(_string) if not k.startswith("_") and isinstance(getattr(_string, k), str)})
    calls = [c for c in ast.walk(ple) if isinstance(c, ast.Call) and isinstance(c.func, ast.Attribute) and c.func.attr == "translate" and len(c.args) == 1]
    n = 0
    for c in calls:
        it = Interp({"string": strmod}, module_tree=mod.tree, max_steps=400000)
        env = {}

        def need(e, depth=0):
            for nm in {x.id for x in ast.walk(e) if isinstance(x, ast.Name) and isinstance(x.ctx, ast.Load)}:
                if nm in env or depth > 6:
                    continue
                src = tops.get(nm)
                if src is None:
                    loc = [a for a in ast.walk(ple) if isinstance(a, ast.Assign) and len(a.targets) == 1 and norm(a.targets[0]) == nm]
                    src = loc[0].value if len(loc) == 1 else None
                if src is not None:
                    need(src, depth + 1)
                    env[nm] = it.ev(src, env)
        try:
            need(c.args[0])
            table = it.ev(c.args[0], env)
        except (Raised, NeedBit, Imprecise, AnalysisError, Exception) as ex:   # noqa: B014
            raise AnalysisError(f"Q8: the translation table `{norm(c.args[0])[:60]}` could not be folded ({type(ex).__name__}: {str(ex)[:80]})")
        n += 1
        ok = isinstance(table, (bytes, bytearray)) and len(table) == 256
        bad = [b for b in range(256) if not (0x20 <= table[b] <= 0x7e)] if ok else []
        run.ob("Q8", ok and not bad, "the text column of a byte buffer is one line of printable ASCII",
               (f"the translation table maps {len(bad)} byte values to non-printable characters (e.g. {', '.join(f'{b:#04x}->{table[b]:#04x}' for b in bad[:5])}): "
                "a buffer holding such a byte is shown with a raw control character in its value column (a newline splits the row) or "
                "cannot be decoded to text") if ok else f"the translation table is not a 256-byte table ({type(table).__name__})",
               module=mod, node=c, func="pretty_list_elems", construct="byte buffer text filter")
    run.require(n >= 1, "Q8: the byte buffer's text filter (`<buffer>.translate(<table>)`) was not found")


def check(run, project):
    L = ctx.layout(project)
    run.explanation = ("must-dataflow of `isinstance(_, MarshalEvent)` knowledge over the CFGs of both printers (Q1), typestate "
                       "of pulled events in the list folder (Q2), FOLLOW-set facts from L (Q3), row-shape def-use (Q4), folding mode / "
                       "membership / empty-list flag of the list folder over path summaries (Q5), unbound and undefined names (Q6), "
                       "discarded generators (Q7), the byte buffer's translation table folded by the mini interpreter (Q8)")
    q1(run, project)
    q2(run, project)
    q3(run, L)
    q4(run, project)
    q5(run, project)
    q8(run, project)
    from .shared import unbound_locals
    unbound_locals(run, project, "Q6", (PRETTY, EVENTS, "tpmstream.io.binary.unmarshal"), what="the printer fails instead of printing")
    from .shared import discarded_generators
    discarded_generators(run, project, "Q7", modules=(PRETTY, EVENTS, "tpmstream.io.binary.unmarshal"))
    from .shared import undefined_names
    undefined_names(run, project, "Q6", (PRETTY, EVENTS, "tpmstream.io.binary.unmarshal"), what="the printer fails instead of printing")
    # Q12 (= C16-O4): "its value column is the value's text form": the text of a handle-range member is the range's name and
    # the member's offset in the documented number of hex digits (the NamedRange rule, judged here for this clause)
    from . import namedrange
    try:
        namedrange.check(run, "Q12", project.module("tpmstream.spec.common.values"))
    except AnalysisError as ex:
        run.info(f"Q12: NamedRange could not be followed ({ex}); not judged here (C16 reports it)")
    # Q11: "every structure and primitive event as exactly one row" of its own: the path a row is labelled with tells a list
    # from its elements and the elements from each other
    from .shared import pathnode_texts_distinct
    pathnode_texts_distinct(run, project, "Q11", "rows of a list and of its first element (or of two elements) carry the same path")
    # Q9 (= C17-M2, accessor): the value column of an attribute word is its text form, which lists a field exactly when reading
    # the field through its accessor gives a non-zero number - the accessor must give the field's bits right-aligned
    from ..report import RuleView as _RV9
    from . import c17 as _c17
    try:
        _c17.m2_accessor(_RV9(run, "M2", "Q9"), project, ctx.layout(project))
    except AnalysisError as ex:
        run.info(f"Q9: the bit-field accessor could not be followed ({ex}); not judged here (C17 reports it)")
    # the two methods of a response code the printers call - its text form for the value column, attributes() for the bit
    # rows - are walked path by path (the symbolic walk of C18): a local read on a path that never assigned it stops the
    # printer with UnboundLocalError for every code of that path
    from . import c18
    try:
        rc_mod, fails = c18.path_failures(project)
    except AnalysisError as ex:
        rc_mod, fails = None, []
        run.info(f"Q6: the response-code methods could not be walked ({ex}); their termination is not judged here")
    for meth, local, node, codes in fails:
        run.ob("Q6", False, f"TPM_RC.{meth} terminates for every code",
               f"TPM_RC.{meth} reads the local `{local}` on a path that never assigned it: UnboundLocalError for {len(codes)} response codes "
               f"(low 12 bits), e.g. {', '.join(hex(c_) for c_ in codes[:4])} - the printer fails instead of printing", module=rc_mod,
               node=node, func=f"TPM_RC.{meth}", construct=f"unbound-local: {local}")
    if rc_mod is not None and not fails:
        run.ob("Q6", True, "TPM_RC.__format__ / attributes() assign every local before use on every path")
    run.floor("Q1", 15)
    run.floor("Q3", 60)
