"""E2 - statement-level control-flow graph with exception edges, dominators, and a generic
worklist typestate runner.  Supports the statement kinds the repository uses
(if/elif/else, while, for, try/except/else, with, return, raise, assert, break, continue).
"""
from __future__ import annotations

import ast

from .project import AnalysisError, norm


class Node:
    __slots__ = ("id", "kind", "ast", "succ", "handlers", "loop", "label")

    def __init__(self, id_, kind, ast_node=None, label=None):
        self.id = id_
        self.kind = kind  # entry exit raise_exit stmt test for handler join
        self.ast = ast_node
        self.succ = []  # list[(label, Node)]
        self.handlers = []  # innermost-first list of handler Nodes that may catch an exception raised here
        self.loop = None
        self.label = label

    @property
    def lineno(self):
        return getattr(self.ast, "lineno", None)

    def add(self, label, node):
        if (label, node) not in self.succ:
            self.succ.append((label, node))

    def __repr__(self):
        t = norm(self.ast).split("\n")[0][:50] if self.ast is not None else ""
        return f"<{self.id}:{self.kind} L{self.lineno} {t}>"


class CFG:
    def __init__(self, fn: ast.FunctionDef):
        self.fn = fn
        self.nodes = []
        self.entry = self._new("entry")
        self.exit = self._new("exit")
        self.raise_exit = self._new("raise_exit")
        self._handler_stack = []
        self._loop_stack = []
        last = self._seq(fn.body, [(self.entry, "next")])
        for n, lab in last:
            n.add(lab, self.exit)  # falling off the end = return None

    # ------------------------------------------------------------------ construction
    def _new(self, kind, ast_node=None, label=None):
        n = Node(len(self.nodes), kind, ast_node, label)
        n.handlers = list(reversed(self._handler_stack)) if hasattr(self, "_handler_stack") else []
        self.nodes.append(n)
        return n

    def _link(self, preds, node):
        for p, lab in preds:
            p.add(lab, node)

    def _seq(self, stmts, preds):
        """Build `stmts` after `preds` (list of (node, edge-label)); return the open ends."""
        for st in stmts:
            if not preds:
                # unreachable code after return/raise/continue: still build it (keeps nodes findable)
                preds = []
            preds = self._stmt(st, preds)
        return preds

    def _stmt(self, st, preds):
        if isinstance(st, ast.If):
            t = self._new("test", st.test)
            t.label = st
            self._link(preds, t)
            a = self._seq(st.body, [(t, "true")])
            b = self._seq(st.orelse, [(t, "false")]) if st.orelse else [(t, "false")]
            return a + b
        if isinstance(st, ast.While):
            t = self._new("test", st.test)
            t.label = st
            self._link(preds, t)
            brk = []
            self._loop_stack.append((t, brk))
            body_end = self._seq(st.body, [(t, "true")])
            self._loop_stack.pop()
            self._link(body_end, t)
            out = [(t, "false")]
            if st.orelse:
                out = self._seq(st.orelse, out)
            return out + brk
        if isinstance(st, ast.For):
            t = self._new("for", st)
            self._link(preds, t)
            brk = []
            self._loop_stack.append((t, brk))
            body_end = self._seq(st.body, [(t, "iter")])
            self._loop_stack.pop()
            self._link(body_end, t)
            out = [(t, "done")]
            if st.orelse:
                out = self._seq(st.orelse, out)
            return out + brk
        if isinstance(st, ast.Try):
            if st.finalbody:
                raise AnalysisError(f"CFG: try/finally at line {st.lineno} is not supported")
            hnodes = []
            for h in st.handlers:
                hn = self._new("handler", h)
                hnodes.append(hn)
            # body: exceptions go to these handlers (innermost first), then outer ones
            for hn in reversed(hnodes):
                pass
            self._handler_stack.append(hnodes)
            body_end = self._seq(st.body, preds)
            self._handler_stack.pop()
            # handler nodes themselves are protected only by the outer handlers
            for hn in hnodes:
                hn.handlers = self._flat_handlers()
            if st.orelse:
                body_end = self._seq(st.orelse, body_end)
            ends = list(body_end)
            for hn, h in zip(hnodes, st.handlers):
                ends += self._seq(h.body, [(hn, "next")])
            return ends
        if isinstance(st, ast.With):
            n = self._new("stmt", st)
            n.label = "with"
            self._link(preds, n)
            return self._seq(st.body, [(n, "next")])
        if isinstance(st, (ast.FunctionDef, ast.AsyncFunctionDef, ast.ClassDef)):
            n = self._new("stmt", st)
            n.label = "def"
            self._link(preds, n)
            return [(n, "next")]
        n = self._new("stmt", st)
        self._link(preds, n)
        if isinstance(st, ast.Return):
            n.add("return", self.exit)
            return []
        if isinstance(st, ast.Raise):
            n.label = "raise"
            return []
        if isinstance(st, ast.Break):
            if not self._loop_stack:
                raise AnalysisError("CFG: break outside loop")
            self._loop_stack[-1][1].append((n, "break"))
            return []
        if isinstance(st, ast.Continue):
            n.add("continue", self._loop_stack[-1][0])
            return []
        return [(n, "next")]

    def _flat_handlers(self):
        out = []
        for group in reversed(self._handler_stack):
            out.extend(group)
        return out

    def _new_handlers_fix(self):
        pass

    # _new stores reversed(self._handler_stack) as list of groups; flatten lazily
    def handlers_of(self, node):
        out = []
        for g in node.handlers:
            if isinstance(g, list):
                out.extend(g)
            else:
                out.append(g)
        return out

    # ------------------------------------------------------------------ queries
    def stmts(self):
        return [n for n in self.nodes if n.kind in ("stmt", "test", "for")]

    def find(self, pred):
        return [n for n in self.nodes if n.ast is not None and pred(n)]

    def node_of(self, ast_node):
        """The CFG node whose statement/test contains `ast_node`."""
        cur = ast_node
        ids = {id(n.ast): n for n in self.nodes if n.ast is not None}
        while cur is not None:
            if id(cur) in ids:
                return ids[id(cur)]
            cur = getattr(cur, "_parent", None)
        return None

    def preds(self):
        p = {n.id: [] for n in self.nodes}
        for n in self.nodes:
            for lab, s in n.succ:
                p[s.id].append((lab, n))
        return p

    def reachable(self, extra_edges=None):
        seen, stack = {self.entry.id}, [self.entry]
        while stack:
            n = stack.pop()
            for _, s in n.succ + (extra_edges(n) if extra_edges else []):
                if s.id not in seen:
                    seen.add(s.id)
                    stack.append(s)
        return seen

    def dominators(self, with_exc=True):
        """dict node.id -> set of node ids dominating it (normal edges + exception edges to
        handlers when with_exc)."""
        succ = {n.id: [s.id for _, s in n.succ] for n in self.nodes}
        if with_exc:
            for n in self.nodes:
                if n.kind in ("stmt", "test", "for"):
                    for h in self.handlers_of(n):
                        succ[n.id].append(h.id)
        preds = {n.id: [] for n in self.nodes}
        for a, ss in succ.items():
            for b in ss:
                preds[b].append(a)
        allids = {n.id for n in self.nodes}
        dom = {i: set(allids) for i in allids}
        dom[self.entry.id] = {self.entry.id}
        changed = True
        order = [n.id for n in self.nodes]
        while changed:
            changed = False
            for i in order:
                if i == self.entry.id:
                    continue
                ps = [dom[p] for p in preds[i]]
                new = set.intersection(*ps) if ps else set()
                new = new | {i}
                if new != dom[i]:
                    dom[i] = new
                    changed = True
        return dom

    def dominates(self, a: Node, b: Node, dom=None):
        dom = dom or self.dominators()
        return a.id in dom[b.id]


# ------------------------------------------------------------------------------ typestate runner
def run_typestate(cfg: CFG, init_state, transfer, max_states=20000):
    """Worklist abstract interpreter.

    transfer(node, state) -> iterable of (target_node, new_state); states must be hashable.
    Returns dict node.id -> set(states) seen *on entry* to the node.
    """
    seen = {}
    work = [(cfg.entry, init_state)]
    count = 0
    while work:
        node, st = work.pop()
        s = seen.setdefault(node.id, set())
        if st in s:
            continue
        s.add(st)
        count += 1
        if count > max_states:
            raise AnalysisError("typestate: state explosion")
        if node.kind in ("exit", "raise_exit"):
            continue
        for tgt, ns in transfer(node, st):
            work.append((tgt, ns))
    return seen


def catcher(cfg: CFG, node: Node, exc_name, is_subclass):
    """First enclosing handler that catches exception class `exc_name`, else cfg.raise_exit."""
    for h in cfg.handlers_of(node):
        t = h.ast.type
        if t is None:
            return h
        names = [norm(e) for e in (t.elts if isinstance(t, ast.Tuple) else [t])]
        if any(is_subclass(exc_name, n) for n in names):
            return h
    return cfg.raise_exit
