"""E4 - obligations, violations, known findings, evidence, exit codes."""
from __future__ import annotations

import ast
import json
import os
import time

from .project import AnalysisError, norm, qualname_of

VERIF = os.path.dirname(os.path.dirname(os.path.abspath(__file__)))
KNOWN = os.path.join(VERIF, "known_findings.json")
EVIDENCE_DIR = os.environ.get("TPMSA_EVIDENCE_DIR") or os.path.join(VERIF, "evidence")

PROOF_LEVEL = {"C17", "C18", "C20"}


class Run:
    def __init__(self, pid, tier="quick", seed=0, project=None):
        self.pid = pid
        self.tier = tier
        self.seed = seed
        self.project = project
        self.t0 = time.time()
        self.obligations = []  # (rule, site, ok)
        self.violations = []
        self.rule_counts = {}
        self.floors = {}
        self.infos = []
        self.coverage_extra = {}
        self.assumptions = []
        self.explanation = ""
        self.trusted_base = []

    # ------------------------------------------------------------------ recording
    def ob(self, rule, ok, site, reason="", module=None, node=None, func=None, construct=None,
           path=None):
        """Record one obligation of `rule` at `site` (a short human-readable instance name).

        A failed obligation becomes a violation keyed by (rule, function, construct)."""
        self.rule_counts[rule] = self.rule_counts.get(rule, 0) + 1
        self.obligations.append((rule, site, bool(ok)))
        if ok:
            return True
        file = module.relpath if module is not None else None
        line = getattr(node, "lineno", None) if node is not None else None
        if func is None and node is not None:
            func = qualname_of(node)
        if construct is None:
            construct = norm(node).split("\n")[0][:160] if isinstance(node, ast.AST) else site
        v = {
            "rule": rule,
            "file": file,
            "line": line,
            "function": func or "<module>",
            "construct": construct,
            "reason": reason,
        }
        if path:
            v["path"] = path
        if any(all(o.get(k) == v.get(k) for k in ("rule", "file", "line", "function", "construct")) for o in self.violations):
            return False
        self.violations.append(v)
        return False

    def info(self, msg):
        self.infos.append(msg)

    def floor(self, rule, minimum, what="instances"):
        """No vacuous rules: fewer than `minimum` instances of a rule is an analysis error."""
        n = self.rule_counts.get(rule, 0)
        self.floors[rule] = minimum
        if n < minimum and self.violations:
            self.info(f"rule {rule}: {n} {what} (floor {minimum}) - not enforced because violations were found")
            return
        if n < minimum:
            raise AnalysisError(
                f"rule {rule}: only {n} {what} found, floor is {minimum} (anchor moved?)"
            )

    def require(self, cond, msg):
        """A hand-confirmed count / anchor; missing it is an analysis error unless the run already
        has violations to report (the broken construct is then the likely cause)."""
        if not cond:
            if self.violations:
                self.info(msg + " - not enforced because violations were found")
            else:
                raise AnalysisError(msg)

    def cover(self, **kw):
        self.coverage_extra.update(kw)

    # ------------------------------------------------------------------ known findings
    @staticmethod
    def load_known():
        if not os.path.exists(KNOWN):
            return {"open": [], "fixed": []}
        with open(KNOWN) as fh:
            return json.load(fh)

    def _match_known(self, v, known_open):
        for k in known_open:
            if (
                k.get("property") == self.pid
                and k.get("rule") == v["rule"]
                and k.get("function") == v["function"]
                and k.get("construct") == v["construct"]
            ):
                return k
        return None

    def new_violations(self):
        known = self.load_known()
        return [v for v in self.violations if not self._match_known(v, known.get("open", []))]

    # ------------------------------------------------------------------ finish
    def finish(self):
        known = self.load_known()
        new, listed = [], []
        for v in self.violations:
            k = self._match_known(v, known.get("open", []))
            (listed if k else new).append((v, k))
        wall = time.time() - self.t0
        print(f"[{self.pid}] tier={self.tier} obligations={len(self.obligations)} "
              f"discharged={sum(1 for o in self.obligations if o[2])} "
              f"violations={len(self.violations)} (listed as known: {len(listed)}) wall={wall:.2f}s")
        for rule in sorted(self.rule_counts):
            fl = self.floors.get(rule)
            print(f"  rule {rule}: {self.rule_counts[rule]} instances" + (f" (floor {fl})" if fl else ""))
        for msg in self.infos:
            print(f"  info: {msg}")
        for v, k in listed:
            print(f"KNOWN-FINDING: property={self.pid} {v['rule']} {v['function']}: "
                  f"{v['construct']} -- {k.get('what', v['reason'])}")
        for v, _ in new:
            loc = f"{v['file']}:{v['line']}" if v["file"] else "<tables>"
            print(f"{loc}: {v['rule']} in {v['function']}: {v['construct']} -- {v['reason']}")
            if v.get("path"):
                print(f"    path: {v['path']}")
        self._write_evidence(wall, new, listed)
        if new:
            os.makedirs(EVIDENCE_DIR, exist_ok=True)
            replay = os.path.join(EVIDENCE_DIR, f"{self.pid}.violations.json")
            with open(replay, "w") as fh:
                json.dump([v for v, _ in new], fh, indent=1)
            print(f"VIOLATION property={self.pid} replay={replay}")
            return 1
        stale = os.path.join(EVIDENCE_DIR, f"{self.pid}.violations.json")
        if os.path.exists(stale):
            os.remove(stale)
        return 0

    def _write_evidence(self, wall, new, listed):
        os.makedirs(EVIDENCE_DIR, exist_ok=True)
        n_ob = len(self.obligations)
        n_ok = sum(1 for o in self.obligations if o[2])
        # samples: deterministic selection driven by the seed
        samples = []
        if self.obligations:
            step = max(1, n_ob // 12)
            start = self.seed % step if step else 0
            for rule, site, ok in self.obligations[start::step][:14]:
                samples.append({"rule": rule, "site": site, "status": "discharged" if ok else "FAILED"})
        distinct = len({(r, s) for r, s, _ in self.obligations})
        level = "proof" if self.pid in PROOF_LEVEL else "other"
        cov = {
            "explanation": self.explanation or "static analysis of /repo source (ast); see rule_instances",
            "obligations": n_ob,
            "discharged": n_ok,
            "known_findings": len(listed),
            "evaluations": max(1, n_ob),
            "distinct_nontrivial": distinct,
            "rule": "one obligation per (rule, program construct or table entry) found in the current "
                    "tree; distinct = distinct (rule, site) pairs",
            "samples": samples or [{"rule": "-", "site": "-", "status": "-"}],
            "rule_instances": dict(sorted(self.rule_counts.items())),
            "floors": self.floors,
            "checker_cmd": f"./check {self.pid} --tier {self.tier}",
            "trusted_base": self.trusted_base or ["CPython ast/symtable"],
            "source_digest": self.project.digest() if self.project else None,
            "source_root": self.project.root if self.project else None,
        }
        if self.pid in PROOF_LEVEL:
            cov["exhaustive"] = True  # the whole statement is a fact about finite tables, enumerated completely
        cov.update(self.coverage_extra)
        ev = {
            "property_id": self.pid,
            "tier": self.tier,
            "seed": self.seed,
            "level": level,
            "coverage": cov,
            "assumptions": self.assumptions,
            "wall_s": round(wall, 3),
            "violations": len(new),
        }
        with open(os.path.join(EVIDENCE_DIR, f"{self.pid}.json"), "w") as fh:
            json.dump(ev, fh, indent=1, default=str)


class RuleView:
    """A sibling property re-uses one rule of another property's checker: obligations of rule `only` are recorded on the
    real run under the name `as_rule`; everything else that checker does is ignored."""

    def __init__(self, run, only, as_rule):
        self._run, self._only, self._as = run, only, as_rule
        self.explanation = ""

    def ob(self, rule, ok, *a, **kw):
        if rule == self._only:
            return self._run.ob(self._as, ok, *a, **kw)
        return None

    def floor(self, *a, **kw):
        pass

    def require(self, cond, msg=""):
        pass

    def cover(self, **kw):
        pass

    def info(self, *a, **kw):
        pass
