"""Pinned layout snapshot: canonical JSON of L, semantic diff with facet tags."""
from __future__ import annotations

import json
import os

from .project import AnalysisError

PINNED = os.path.join(os.path.dirname(os.path.dirname(os.path.abspath(__file__))), "pinned", "layout.json")

# facet of each per-type key
FACET = {
    "kind": "decode", "fields": "decode", "int_size": "decode", "signed": "decode",
    "_selectors": "decode", "_selected_by": "decode", "_list_size": "decode", "params": "decode",
    "valid": "valid", "valid_items": "naming", "enum": "naming", "masks": "masks", "base": "base",
    "module": "module",
}


MAP_FACETS = ("_selectors", "_selected_by", "_list_size")


def load_pinned():
    if not os.path.exists(PINNED):
        raise AnalysisError(f"pinned snapshot missing: {PINNED}")
    with open(PINNED) as fh:
        return json.load(fh)


def _j(x):
    return json.loads(json.dumps(x))


def describe(v, limit=90):
    s = json.dumps(v, sort_keys=True)
    return s if len(s) <= limit else s[: limit - 3] + "..."


def diff_lists(a, b):
    """first differing position of two lists, described."""
    for i, (x, y) in enumerate(zip(a, b)):
        if x != y:
            return f"#{i}: pinned {describe(x)} now {describe(y)}"
    if len(a) != len(b):
        i = min(len(a), len(b))
        extra = a[i] if len(a) > len(b) else b[i]
        return f"#{i}: {'missing (pinned ' if len(a) > len(b) else 'added (now '}{describe(extra)})"
    return "equal"


def diff(pinned, current):
    """Yield (facet, type_key, construct, reason) for every pinned entry that is missing or
    different in `current`; and ('info', ...) for entries only in the tree."""
    current = _j(current)
    out = []
    pt, ct = pinned["types"], current["types"]
    for k, pd in pt.items():
        cd = ct.get(k)
        if cd is None:
            out.append(("decode", k, f"type {k}", "pinned type no longer exists (removed or renamed)"))
            continue
        for facet_key in sorted(set(pd) | set(cd)):
            pv, cv = pd.get(facet_key), cd.get(facet_key)
            if pv == cv:
                continue
            if facet_key in MAP_FACETS and isinstance(pv, list) and isinstance(cv, list):
                # a table that is only ever looked up: the order of its entries is no part of the layout - except, for
                # _selected_by, the order among entries with the SAME selector value (the decoder inverts the table, the later
                # entry wins): compared as a stable sort by selector value (by member name for the other two)
                pos = 1 if facet_key == "_selected_by" else 0
                key_ = lambda kv: json.dumps(kv[pos], sort_keys=True)  # noqa: E731
                pv, cv = sorted(pv, key=key_), sorted(cv, key=key_)
                if pv == cv:
                    continue
            facet = FACET.get(facet_key, "decode")
            if isinstance(pv, list) and isinstance(cv, list):
                why = diff_lists(pv, cv)
            elif isinstance(pv, dict) and isinstance(cv, dict):
                ch = [f"{n}: pinned {describe(pv.get(n))} now {describe(cv.get(n))}"
                      for n in sorted(set(pv) | set(cv)) if pv.get(n) != cv.get(n)]
                why = "; ".join(ch[:4])
            else:
                why = f"pinned {describe(pv)} now {describe(cv)}"
            out.append((facet, k, f"{k}.{facet_key}", why))
    for k in ct:
        if k not in pt:
            out.append(("info", k, f"type {k}", "exists only in the tree (not pinned)"))
    for tn, prow in pinned["tables"].items():
        crow = current["tables"].get(tn)
        if crow is None:
            out.append(("decode", tn, f"table {tn}", "pinned table no longer exists"))
        elif crow != prow:
            out.append(("decode", tn, f"table {tn}", diff_lists(prow, crow)))
    for owner in ("Command._type_maps", "Response._type_maps"):
        if pinned.get(owner) != current.get(owner):
            out.append(("decode", owner, owner, f"pinned {describe(pinned.get(owner))} now {describe(current.get(owner))}"))
    return out
