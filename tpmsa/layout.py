"""Layout model L: typed view + canonical JSON of what E1 (specmodel) reconstructed."""
from __future__ import annotations

from .project import AnalysisError
from .specmodel import (ANY, AlgValueV, BitMask, ClassV, DictV, EnumMember, ListT, ModuleV,
                        NamedRangeV, Opaque, RangeV, SpecModel, TupleV, ValidValuesV, as_int, tname)

STRUCT_PKG = "tpmstream.spec.structures"
CMD_PKG = "tpmstream.spec.commands"
AREA_TABLES = [
    ("command_handle_types", CMD_PKG + ".commands_handles", "TPMS_COMMAND_HANDLES_", "Command", "handles"),
    ("command_param_types", CMD_PKG + ".commands_params", "TPMS_COMMAND_PARAMS_", "Command", "parameters"),
    ("response_handle_types", CMD_PKG + ".responses_handles", "TPMS_RESPONSE_HANDLES_", "Response", "handles"),
    ("response_param_types", CMD_PKG + ".responses_params", "TPMS_RESPONSE_PARAMS_", "Response", "parameters"),
]


def merge_intervals(iv):
    iv = sorted(iv)
    out = []
    for lo, hi in iv:
        if out and lo <= out[-1][1] + 1:
            out[-1][1] = max(out[-1][1], hi)
        else:
            out.append([lo, hi])
    return out


class Layout:
    def __init__(self, model: SpecModel):
        self.m = model
        self.struct_types = self._collect_structures()  # name -> ClassV (the 248)
        cenv = model.env(CMD_PKG)
        self.Command = model.get(CMD_PKG, "Command")
        self.Response = model.get(CMD_PKG, "Response")
        self.Stream = model.get(CMD_PKG, "CommandResponseStream")
        self.TPM_CC = model.get(STRUCT_PKG + ".constants", "TPM_CC")
        self.TPMS_PARAMS = model.get(CMD_PKG + ".params_common", "TPMS_PARAMS")
        self.TPM2B_ENCRYPTED_PARAM = model.get(CMD_PKG + ".params_common", "TPM2B_ENCRYPTED_PARAM")
        self.tables = {}
        for tname_, modname, prefix, owner, field in AREA_TABLES:
            t = model.get(modname, tname_)
            if not isinstance(t, DictV):
                raise AnalysisError(f"{modname}.{tname_} is not a dict literal")
            self.tables[tname_] = t
        self.area_types = self._collect_areas()
        self.all = dict(self.struct_types)
        for k, c in self.area_types.items():
            self.all[k] = c
        self.all["Command"] = self.Command
        self.all["Response"] = self.Response
        self._key = {id(c): k for k, c in self.all.items()}
        self._key[id(self.TPM2B_ENCRYPTED_PARAM)] = "TPM2B_ENCRYPTED_PARAM"
        self._key[id(self.TPMS_PARAMS)] = "TPMS_PARAMS"

    # ------------------------------------------------------------------ collection
    duplicate_types: list = []

    def _collect_structures(self):
        self.duplicate_types = []
        return self._collect_structures_impl()

    def _collect_structures_impl(self):
        """Mirror of spec/structures/__init__.py: classes visible in the listed submodules whose
        name is upper-case and does not start with '_' (model guard G-structures checks the rule)."""
        env = self.m.env(STRUCT_PKG)
        subs = self.m.force(env.get("submodules"))
        if not isinstance(subs, TupleV) or not all(isinstance(self.m.force(x), ModuleV) for x in subs.items):
            raise AnalysisError("spec/structures/__init__.py: `submodules` is not a tuple of modules")
        out = {}
        for mv in subs.items:
            mv = self.m.force(mv)
            for k, v in self.m.env(mv.name).items():
                v = self.m.force(v)
                if isinstance(v, ClassV) and not v.name.startswith("_") and v.name.isupper():
                    prev = out.get(v.name)
                    if prev is not None and prev is not v:
                        # a second class object of that name is visible in a layout module (e.g. a filtered copy of an enum bound
                        # to a module-level name): the table of all types then holds two types of one name.  The layout keeps
                        # the class that is bound under its own name; the duplicate is reported by C20-T7 / C19.
                        self.duplicate_types.append((v.name, mv.name, k))
                        if k != v.name:
                            continue
                    out[v.name] = v
        return dict(sorted(out.items()))

    def _collect_areas(self):
        out = {}
        env = self.m.env(CMD_PKG)
        subs = self.m.force(env.get("submodules"))
        if not isinstance(subs, TupleV):
            raise AnalysisError("spec/commands/__init__.py: `submodules` is not a tuple")
        prefixes = ("TPMS_COMMAND_HANDLES", "TPMS_RESPONSE_HANDLES", "TPMS_COMMAND_PARAMS", "TPMS_RESPONSE_PARAMS")
        seen = {}
        for mv in subs.items:
            mv = self.m.force(mv)
            for k, v in self.m.env(mv.name).items():
                v = self.m.force(v)
                if isinstance(v, ClassV) and v.name.startswith(prefixes):
                    seen.setdefault(v.name, [])
                    if all(v is not x for x in seen[v.name]):
                        seen[v.name].append(v)
        for name, lst in sorted(seen.items()):
            if len(lst) == 1:
                out[name] = lst[0]
            else:
                for c in lst:
                    out[f"{c.module.name.rsplit('.', 1)[-1]}:{name}"] = c
        return out

    # ------------------------------------------------------------------ type queries
    def key(self, t):
        if isinstance(t, ClassV):
            k = self._key.get(id(t))
            if k is None:
                return f"?{t.module.name.rsplit('.', 1)[-1]}:{t.name}"
            return k
        if isinstance(t, ListT):
            return f"list[{self.key(t.elem)}]"
        if t is None:
            return "None"
        if t is ANY:
            return "Any"
        if type(t).__name__ == "BadTypeV":
            return f"!{t.what}"
        raise AnalysisError(f"unmodelled type reference {t!r}")

    @staticmethod
    def is_primitive(c):
        return isinstance(c, ClassV) and c.has("_int_size")

    @staticmethod
    def is_dataclass(c):
        return isinstance(c, ClassV) and any(b.kind == "dataclass" for b in c.mro())

    @staticmethod
    def fields(c):
        """dataclasses.fields(c): the nearest dataclass in the MRO decides (a plain subclass
        inherits __dataclass_fields__; its own annotations are not fields)."""
        for b in c.mro():
            if b.kind == "dataclass":
                return b.fields
        raise AnalysisError(f"{c.name} is not a dataclass")

    def kind(self, c):
        """The walker kind by the *meaning* of the type (not by process()'s chain)."""
        if c is self.Command:
            return "command"
        if c is self.Response:
            return "response"
        if c is self.Stream:
            return "stream"
        if isinstance(c, ListT):
            return "list"
        if self.is_primitive(c):
            return "primitive"
        if not self.is_dataclass(c):
            return "other"
        if c.has("_selected_by"):
            return "union"
        f = self.fields(c)
        if len(f) == 2 and f[0][0] == "size" and self.is_primitive(f[0][1]) and not f[0][1].lookup("_signed"):
            return "tpm2b"
        return "struct"

    def int_size(self, c):
        v = c.lookup("_int_size")
        if not isinstance(v, int) or isinstance(v, bool):
            raise AnalysisError(f"{c.name}._int_size is not an int literal: {v!r}")
        return v

    def signed(self, c):
        v = c.lookup("_signed")
        if not isinstance(v, bool):
            raise AnalysisError(f"{c.name}._signed is not a bool literal: {v!r}")
        return v

    def dict_attr(self, c, attr):
        v = c.lookup(attr)
        if v is None:
            return None
        if not isinstance(v, DictV):
            raise AnalysisError(f"{c.name}.{attr} is not a dict literal")
        return v

    # ------------------------------------------------------------------ valid values
    def valid_items(self, c):
        vv = c.lookup("_valid_values")
        if not isinstance(vv, ValidValuesV):
            raise AnalysisError(f"{c.name}._valid_values is not a ValidValues(...) expression: {vv!r}")
        return vv.items

    def item_intervals(self, it, where=""):
        if isinstance(it, (RangeV, NamedRangeV)):
            return [[it.start, it.stop - 1]] if it.stop > it.start else []
        if isinstance(it, ClassV):
            if it.members is None:
                # plain subclass of an enum: members are inherited
                base = next((b for b in it.mro() if b.members is not None), None)
                if base is None:
                    raise AnalysisError(f"{where}: class {it.name} used as a value set but is not an enum")
                it = base
            out = []
            for m in it.members.values():
                out.extend(self.item_intervals(m, where))
            return out
        if isinstance(it, EnumMember):
            return [[it.value, it.value]]
        if isinstance(it, bool):
            return [[int(it), int(it)]]
        if isinstance(it, int):
            return [[it, it]]
        if isinstance(it, AlgValueV):
            return [[it.value, it.value]]
        raise AnalysisError(f"{where}: unmodelled valid-value item {it!r}")

    def valid_intervals(self, c):
        iv = []
        for it in self.valid_items(c):
            iv.extend(self.item_intervals(it, c.name))
        return merge_intervals(iv)

    def enum_members(self, c):
        base = next((b for b in c.mro() if b.members is not None), None)
        return None if base is None else base.members

    def canon_item(self, it, where=""):
        if isinstance(it, RangeV):
            return {"k": "range", "lo": it.start, "hi": it.stop - 1}
        if isinstance(it, NamedRangeV):
            return {"k": "named_range", "cls": it.cls.name, "name": it.name, "lo": it.start,
                    "hi": it.stop - 1, "nibbles": it.nibbles()}
        if isinstance(it, ClassV):
            mem = self.enum_members(it)
            if mem is None:
                raise AnalysisError(f"{where}: class {it.name} used as a value set but is not an enum")
            return {"k": "enum", "cls": it.name, "members": self.canon_members(mem)}
        if isinstance(it, EnumMember):
            return {"k": "member", "cls": it.cls.name, "name": it.name, "value": it.value}
        if isinstance(it, bool) or isinstance(it, int):
            return {"k": "int", "value": int(it)}
        raise AnalysisError(f"{where}: unmodelled valid-value item {it!r}")

    @staticmethod
    def canon_members(mem):
        out = []
        for name, m in mem.items():  # getmembers order (sorted by name)
            if isinstance(m, NamedRangeV):
                out.append([name, m.start, m.stop - 1])
            else:
                out.append([name, m.value])
        return out

    # ------------------------------------------------------------------ canonical JSON
    def canon_type(self, k, c):
        d = {"module": c.module.name.rsplit(".", 1)[-1], "kind": self.kind(c)}
        if self.is_primitive(c):
            d["int_size"] = self.int_size(c)
            d["signed"] = self.signed(c)
            d["valid"] = self.valid_intervals(c)
            d["valid_items"] = [self.canon_item(i, c.name) for i in self.valid_items(c)]
            mem = self.enum_members(c)
            if mem is not None:
                d["enum"] = self.canon_members(mem)
            bf = next((b for b in c.mro() if b.masks is not None), None)
            if bf is not None:
                d["masks"] = {n: v for n, v in bf.masks.items()}
            d["base"] = next((b.name for b in c.mro()[1:] if not b.name.startswith("_")), None)
            return d
        if self.is_dataclass(c):
            d["fields"] = [[n, self.key(t)] for n, t in self.fields(c)]
            for attr in ("_selectors", "_selected_by", "_list_size"):
                dv = self.dict_attr(c, attr)
                if dv is not None:
                    d[attr] = [[self.canon_scalar(k_), self.canon_scalar(v_)] for k_, v_, _ in dv.items]
            d["params"] = c.is_subclass_of(self.TPMS_PARAMS)
            return d
        d["kind"] = "other"
        return d

    def canon_scalar(self, v):
        if isinstance(v, EnumMember):
            return {"cls": v.cls.name, "name": v.name, "value": v.value}
        if isinstance(v, ClassV):
            return {"type": self.key(v)}
        if v is None or isinstance(v, (str, int)):
            return v
        raise AnalysisError(f"unmodelled table scalar {v!r}")

    def canonical(self):
        out = {"types": {}, "tables": {}}
        for k, c in self.all.items():
            out["types"][k] = self.canon_type(k, c)
        out["types"]["TPM2B_ENCRYPTED_PARAM"] = self.canon_type("TPM2B_ENCRYPTED_PARAM", self.TPM2B_ENCRYPTED_PARAM)
        for tn, dv in self.tables.items():
            out["tables"][tn] = [[self.canon_scalar(k), self.key(v) if isinstance(v, ClassV) else repr(v)]
                                 for k, v, _ in dv.items]
        for owner in ("Command", "Response"):
            c = self.all[owner]
            tm = self.dict_attr(c, "_type_maps")
            out[owner + "._type_maps"] = [[k, self.table_name(v)] for k, v, _ in tm.items] if tm else None
        return out

    def table_name(self, dv):
        for tn, t in self.tables.items():
            if t is dv:
                return tn
        return "?"
