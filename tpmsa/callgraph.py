"""E3 - call resolution and reachability over the repo's own functions.

Name calls are resolved through the module's import bindings (following re-exports); attribute
calls `x.m(...)` are resolved by method name over all repo classes defining `m`
(over-approximation by union), plus `Cls.m` / `module.f` when the receiver is a resolved name.
"""
from __future__ import annotations

import ast

from .project import Module, Project, call_name, norm, walk_no_nested


class FnRef:
    __slots__ = ("mod", "qual", "node")

    def __init__(self, mod: Module, qual: str, node):
        self.mod, self.qual, self.node = mod, qual, node

    @property
    def key(self):
        return (self.mod.name, self.qual)

    def __repr__(self):
        return f"{self.mod.name.split('.', 1)[-1]}.{self.qual}"


class CallGraph:
    def __init__(self, project: Project):
        self.project = project
        self.funcs = {}
        self.methods = {}  # method name -> [FnRef]
        self.classes = {}  # (mod, class name) -> ClassDef
        for mod in project.modules.values():
            for q, fn in mod.functions().items():
                ref = FnRef(mod, q, fn)
                self.funcs[ref.key] = ref
                parts = q.split(".")
                if len(parts) >= 2:
                    self.methods.setdefault(parts[-1], []).append(ref)
            for cname, c in mod.classes().items():
                self.classes[(mod.name, cname)] = c

    def resolve_name(self, mod: Module, name):
        """-> FnRef | ('class', Module, ClassDef) | None"""
        r = self.project.resolve_name(mod, name)
        if r is None:
            return None
        m, attr = r
        if attr is None:
            return ("module", m)
        fn = m.functions().get(attr)
        if fn is not None and "." not in attr:
            return self.funcs[(m.name, attr)]
        c = m.classes().get(attr)
        if c is not None:
            return ("class", m, c)
        return None

    def callees(self, ref: FnRef):
        out = []
        mod = ref.mod
        for c in walk_no_nested(ref.node):
            if not isinstance(c, ast.Call):
                continue
            f = c.func
            if isinstance(f, ast.Name):
                r = self.resolve_name(mod, f.id)
                if isinstance(r, FnRef):
                    out.append((c, r))
                elif isinstance(r, tuple) and r[0] == "class":
                    init = self.funcs.get((r[1].name, f"{r[2].name}.__init__"))
                    if init is not None:
                        out.append((c, init))
                else:
                    # nested function of the same parent scope
                    parent_q = ref.qual
                    cand = self.funcs.get((mod.name, f"{parent_q}.{f.id}"))
                    if cand is not None:
                        out.append((c, cand))
            elif isinstance(f, ast.Attribute):
                base = f.value
                resolved = False
                if isinstance(base, ast.Name):
                    r = self.resolve_name(mod, base.id)
                    if isinstance(r, tuple) and r[0] == "class":
                        m = self.funcs.get((r[1].name, f"{r[2].name}.{f.attr}"))
                        if m is not None:
                            out.append((c, m))
                            resolved = True
                    elif isinstance(r, tuple) and r[0] == "module":
                        m = self.funcs.get((r[1].name, f.attr))
                        if m is not None:
                            out.append((c, m))
                            resolved = True
                if not resolved:
                    for m in self.methods.get(f.attr, []):
                        out.append((c, m))
        return out

    def reachable(self, entries):
        seen = {}
        stack = list(entries)
        while stack:
            r = stack.pop()
            if r.key in seen:
                continue
            seen[r.key] = r
            for _, callee in self.callees(r):
                if callee.key not in seen:
                    stack.append(callee)
            # nested defs (closures / local classes) run in the same dynamic extent
            for q, fn in r.mod.functions().items():
                if q.startswith(r.qual + ".") and (r.mod.name, q) not in seen:
                    stack.append(self.funcs[(r.mod.name, q)])
        return seen

    def get(self, modname, qual):
        return self.funcs.get((modname, qual))
