"""The "encryption request" of a session area, as a normal form.

However the decoder spells the question "does one of these sessions ask for parameter encryption" - a predicate function
with a direction flag, two functions in another module, a method of Command that returns keyword arguments, `E or None`
at the call site or inside the helper - the value that reaches `parameter_encryption` is a function of two facts about one
session area A:   absent(A)  (A is None)   and   any(A, bit)  (some session in A has sessionAttributes.<bit> set).

`evaluate` interprets an expression symbolically (no import, no concrete run: the session area stays a symbol) through the
project functions and methods it calls, forking on exactly those two facts, and `table` reads the result as

    {"area": <ast of A>, "bit": "encrypt" | "decrypt", "absent": v0, "any": v1, "none": v2}      v in True / False / None / "error"

Anything outside the small vocabulary below raises Unsupported: the caller then falls back to the rules that read the one
pinned form."""
from __future__ import annotations

import ast
import copy

from .project import norm


class Unsupported(Exception):
    pass


MAX_DEPTH = 6


class Ctx:
    def __init__(self, project, mod):
        self.project, self.mod = project, mod


def _methods_named(project, name):
    out = []
    for m in project.modules.values():
        for c in m.tree.body:
            if isinstance(c, ast.ClassDef):
                for f in c.body:
                    if isinstance(f, ast.FunctionDef) and f.name == name:
                        out.append((m, c, f))
    return out


def _is_none(v, assume):
    """[(assume', bool)]"""
    if v[0] == "const":
        return [(assume, v[1] is None)]
    if v[0] == "sym":
        key = ("absent", norm(v[1]))
        if key in assume:
            return [(assume, assume[key])]
        return [({**assume, key: True}, True), ({**assume, key: False}, False)]
    if v[0] in ("any", "dict"):
        return [(assume, False)]
    raise Unsupported(f"`is None` of {v[0]}")


def _truth(v, assume):
    if v[0] == "const":
        return [(assume, bool(v[1]))]
    if v[0] == "dict":
        return [(assume, bool(v[1]))]
    if v[0] == "any":
        key = ("any", norm(v[1]), v[2])
        if key in assume:
            return [(assume, assume[key])]
        return [({**assume, key: True}, True), ({**assume, key: False}, False)]
    raise Unsupported(f"truth value of `{norm(v[1]) if v[0] == 'sym' else v[0]}`")


def _bool_value(v, assume):
    """the value as a bool constant per world (any(...) IS a bool)"""
    return [(a, ("const", b)) for a, b in _truth(v, assume)]


def _boolop(values, is_or, env, ctx, assume, depth):
    """`a or b` / `a and b` hand back the deciding operand itself"""
    out = []
    for a, v in ev(values[0], env, ctx, assume, depth):
        if len(values) == 1:
            out.append((a, v))
            continue
        for a2, tv in _truth(v, a):
            if tv == is_or:
                out.append((a2, ("const", tv) if v[0] == "any" else v))
            else:
                out.extend(_boolop(values[1:], is_or, env, ctx, a2, depth))
    return out


def ev(e, env, ctx, assume, depth=0):
    """[(assume', value)]"""
    if depth > MAX_DEPTH:
        raise Unsupported("call depth")
    if isinstance(e, ast.Constant):
        return [(assume, ("const", e.value))]
    if isinstance(e, ast.Name):
        if e.id in env:
            return [(assume, env[e.id])]
        raise Unsupported(f"name `{e.id}`")
    if isinstance(e, ast.Attribute):
        out = []
        for a, b in ev(e.value, env, ctx, assume, depth):
            if b[0] != "sym":
                raise Unsupported(f"attribute of {b[0]}")
            out.append((a, ("sym", ast.Attribute(value=b[1], attr=e.attr, ctx=ast.Load()))))
        return out
    if isinstance(e, ast.IfExp):
        out = []
        for a, t in ev(e.test, env, ctx, assume, depth):
            for a2, tv in _truth(t, a):
                out.extend(ev(e.body if tv else e.orelse, env, ctx, a2, depth))
        return out
    if isinstance(e, ast.BoolOp):
        return _boolop(list(e.values), isinstance(e.op, ast.Or), env, ctx, assume, depth)
    if isinstance(e, ast.UnaryOp) and isinstance(e.op, ast.Not):
        out = []
        for a, v in ev(e.operand, env, ctx, assume, depth):
            out.extend((a2, ("const", not tv)) for a2, tv in _truth(v, a))
        return out
    if isinstance(e, ast.Compare) and len(e.ops) == 1:
        op = e.ops[0]
        out = []
        for a, l in ev(e.left, env, ctx, assume, depth):
            for a2, r in ev(e.comparators[0], env, ctx, a, depth):
                if isinstance(op, (ast.Is, ast.IsNot)):
                    if r == ("const", None):
                        res = _is_none(l, a2)
                    elif l == ("const", None):
                        res = _is_none(r, a2)
                    elif l[0] == "const" and r[0] == "const":
                        res = [(a2, l[1] is r[1])]
                    else:
                        raise Unsupported(f"`{norm(e)}`")
                    out.extend((a3, ("const", b if isinstance(op, ast.Is) else not b)) for a3, b in res)
                elif isinstance(op, (ast.Eq, ast.NotEq)) and l[0] == "const" and r[0] == "const":
                    out.append((a2, ("const", (l[1] == r[1]) == isinstance(op, ast.Eq))))
                else:
                    raise Unsupported(f"`{norm(e)}`")
        return out
    if isinstance(e, ast.Dict):
        worlds = [(assume, {})]
        for k, v in zip(e.keys, e.values):
            if not (isinstance(k, ast.Constant) and isinstance(k.value, str)):
                raise Unsupported("dict display with computed keys")
            nxt = []
            for a, d in worlds:
                for a2, val in ev(v, env, ctx, a, depth):
                    nxt.append((a2, {**d, k.value: val}))
            worlds = nxt
        return [(a, ("dict", d)) for a, d in worlds]
    if isinstance(e, ast.Call):
        return call(e, env, ctx, assume, depth)
    raise Unsupported(f"`{norm(e)[:60]}`")


def _any_call(e, env, ctx, assume, depth):
    g = e.args[0]
    if not (isinstance(g, (ast.GeneratorExp, ast.ListComp)) and len(g.generators) == 1 and not g.generators[0].ifs
            and isinstance(g.generators[0].target, ast.Name)):
        raise Unsupported(f"`{norm(e)[:60]}`")
    var = g.generators[0].target.id
    elt = g.elt
    bits = None
    if isinstance(elt, ast.Attribute) and isinstance(elt.value, ast.Attribute) and elt.value.attr == "sessionAttributes" \
            and isinstance(elt.value.value, ast.Name) and elt.value.value.id == var:
        bits = [(assume, elt.attr)]
    elif isinstance(elt, ast.Call) and isinstance(elt.func, ast.Name) and elt.func.id == "getattr" and len(elt.args) == 2 \
            and isinstance(elt.args[0], ast.Attribute) and elt.args[0].attr == "sessionAttributes" \
            and isinstance(elt.args[0].value, ast.Name) and elt.args[0].value.id == var:
        bits = []
        for a, v in ev(elt.args[1], env, ctx, assume, depth):
            if not (v[0] == "const" and isinstance(v[1], str)):
                raise Unsupported("attribute name of the session test is not a constant")
            bits.append((a, v[1]))
    if bits is None:
        raise Unsupported(f"`{norm(e)[:60]}` is not a test of one session attribute over all sessions")
    out = []
    for a, bit in bits:
        for a2, it in ev(g.generators[0].iter, env, ctx, a, depth):
            if it[0] == "sym":
                for a3, absent in _is_none(it, a2):
                    out.append((a3, ("error", "TypeError")) if absent else (a3, ("any", it[1], bit)))
            elif it == ("const", None):
                out.append((a2, ("error", "TypeError")))
            else:
                raise Unsupported("sessions iterated are not a session area")
    return out


def call(e, env, ctx, assume, depth):
    f = e.func
    if isinstance(f, ast.Name) and f.id == "any" and len(e.args) == 1 and not e.keywords and "any" not in env:
        return _any_call(e, env, ctx, assume, depth)
    if isinstance(f, ast.Name) and f.id == "bool" and len(e.args) == 1 and not e.keywords:
        out = []
        for a, v in ev(e.args[0], env, ctx, assume, depth):
            out.extend(_bool_value(v, a))
        return out
    if isinstance(f, ast.Name) and f.id == "getattr" and len(e.args) == 2 and isinstance(e.args[1], ast.Constant) \
            and isinstance(e.args[1].value, str):
        return ev(ast.Attribute(value=e.args[0], attr=e.args[1].value, ctx=ast.Load()), env, ctx, assume, depth)
    # ---- a function / method of the project
    target = self_v = None
    cctx = ctx
    if isinstance(f, ast.Name):
        r = ctx.project.resolve_name(ctx.mod, f.id)
        if r and r[1]:
            fn = next((x for x in r[0].tree.body if isinstance(x, ast.FunctionDef) and x.name == r[1]), None)
            if fn is not None:
                target, cctx = fn, Ctx(ctx.project, r[0])
    elif isinstance(f, ast.Attribute):
        ms = _methods_named(ctx.project, f.attr)
        if len(ms) == 1 and not ms[0][2].decorator_list:
            target, cctx = ms[0][2], Ctx(ctx.project, ms[0][0])
            self_v = f.value
    if target is None:
        raise Unsupported(f"call of `{norm(f)}`")
    if any(norm(d.func if isinstance(d, ast.Call) else d).split(".")[-1] not in ("lru_cache", "cache") for d in target.decorator_list):
        raise Unsupported(f"decorated function `{target.name}`")
    a_ = target.args
    if a_.vararg or a_.kwarg or a_.posonlyargs or any(isinstance(x, ast.Starred) for x in e.args) or any(k.arg is None for k in e.keywords):
        raise Unsupported(f"signature of `{target.name}`")
    params = [x.arg for x in a_.args]
    actual = ([self_v] if self_v is not None else []) + list(e.args)
    if len(actual) > len(params):
        raise Unsupported(f"arguments of `{target.name}`")
    exprs = dict(zip(params, actual))
    for k in e.keywords:
        if k.arg in exprs or k.arg not in params + [x.arg for x in a_.kwonlyargs]:
            raise Unsupported(f"arguments of `{target.name}`")
        exprs[k.arg] = k.value
    defaults = dict(zip(params[len(params) - len(a_.defaults):], a_.defaults))
    defaults.update({x.arg: d for x, d in zip(a_.kwonlyargs, a_.kw_defaults) if d is not None})
    worlds = [(assume, {})]
    for p in params + [x.arg for x in a_.kwonlyargs]:
        nxt = []
        for a, new_env in worlds:
            if p in exprs:
                vals = ev(exprs[p], env, ctx, a, depth)
            elif p in defaults:
                vals = ev(defaults[p], {}, cctx, a, depth)
            else:
                raise Unsupported(f"missing argument `{p}` of `{target.name}`")
            nxt.extend((a2, {**new_env, p: v}) for a2, v in vals)
        worlds = nxt
    out = []
    for a, new_env in worlds:
        for a2, _env, ret in block(target.body, new_env, cctx, a, depth + 1):
            out.append((a2, ret if ret is not None else ("const", None)))
    return out


def block(stmts, env, ctx, assume, depth):
    """[(assume', env', returned value or None)]"""
    worlds = [(assume, env, None)]
    for st in stmts:
        nxt = []
        for a, en, ret in worlds:
            if ret is not None:
                nxt.append((a, en, ret))
                continue
            if isinstance(st, ast.Expr) and isinstance(st.value, ast.Constant) or isinstance(st, (ast.Pass, ast.Assert)):
                nxt.append((a, en, None))   # (assertions state beliefs about the arguments; C06 deals with them)
            elif isinstance(st, ast.Return):
                if st.value is None:
                    nxt.append((a, en, ("const", None)))
                else:
                    nxt.extend((a2, en, v) for a2, v in ev(st.value, en, ctx, a, depth))
            elif isinstance(st, (ast.Assign, ast.AnnAssign)) and (isinstance(st, ast.AnnAssign) or len(st.targets) == 1):
                tgt = st.target if isinstance(st, ast.AnnAssign) else st.targets[0]
                if not isinstance(tgt, ast.Name) or st.value is None:
                    raise Unsupported(f"`{norm(st)[:60]}`")
                nxt.extend((a2, {**en, tgt.id: v}, None) for a2, v in ev(st.value, en, ctx, a, depth))
            elif isinstance(st, ast.If):
                for a2, t in ev(st.test, en, ctx, a, depth):
                    for a3, tv in _truth(t, a2):
                        nxt.extend(block(st.body if tv else st.orelse, en, ctx, a3, depth))
            else:
                raise Unsupported(f"`{norm(st).splitlines()[0][:60]}`")
        worlds = nxt
    return worlds


def table(worlds):
    """the normal form of [(assume, value)], or None when the value depends on anything but one area and one bit"""
    areas = {k[1] for a, _ in worlds for k in a}
    bits = {k[2] for a, _ in worlds for k in a if k[0] == "any"} | {v[2] for _, v in worlds if v[0] == "any"}
    anyv = [v for _, v in worlds if v[0] == "any"]
    areas |= {norm(v[1]) for v in anyv}
    if len(areas) != 1 or len(bits) != 1:
        return None
    area_txt, bit = areas.pop(), bits.pop()
    rows = {"absent": set(), "any": set(), "none": set()}

    def put(row, v):
        if v[0] == "const" and (v[1] is None or isinstance(v[1], bool)):
            rows[row].add(v[1])
        elif v[0] == "error":
            rows[row].add("error")
        else:
            rows[row].add("?")
    guarded = False
    for a, v in worlds:
        absent = a.get(("absent", area_txt))
        hit = a.get(("any", area_txt, bit))
        if absent is True:
            guarded = True
            put("absent", v)
            continue
        if v[0] == "any":          # the undecided bool itself: True when a session asks, False otherwise
            rows["any"].add(True)
            rows["none"].add(False)
            if absent is None:
                rows["absent"].add("error")
            continue
        targets = ["any"] if hit is True else ["none"] if hit is False else ["any", "none"]
        for t in targets:
            put(t, v)
        if absent is None:
            put("absent", v)
    if any(len(r) != 1 for r in rows.values()):
        return None
    return {"area": ast.parse(area_txt, mode="eval").body, "bit": bit, "absent": rows["absent"].pop(), "any": rows["any"].pop(),
            "none": rows["none"].pop()}


def evaluate(project, mod, expr, free, nonnull=()):
    """normal form of `expr`, an expression of module `mod` whose free variables `free` are symbols (those in `nonnull` are
    known not to be None); a list of worlds when the value is a dict display (keyword arguments); None when it is not an
    encryption request; raises Unsupported outside the vocabulary"""
    env = {n: ("sym", ast.Name(id=n, ctx=ast.Load())) for n in free}
    pre = {("absent", n): False for n in nonnull}
    worlds = ev(copy.deepcopy(expr), env, Ctx(project, mod), dict(pre))
    worlds = [({k: v for k, v in a.items() if k not in pre}, val) for a, val in worlds]
    if any(v[0] == "dict" for _, v in worlds):
        return worlds
    return table(worlds)


def session_functions(trees, pinned=frozenset()):
    """names of the functions / methods (in {module name: tree}) that belong to the encryption-request computation: they test
    `sessionAttributes`, or call (by name) one that does.  The normaliser leaves calls of these alone - they are the unit the
    rules evaluate with `evaluate` - instead of expanding them into the walkers."""
    fns = {}
    for t in trees.values():
        for n in ast.walk(t):
            if isinstance(n, ast.FunctionDef):
                fns.setdefault(n.name, []).append(n)
    # (`pinned`: names of the functions of the reference tree - a thin new wrapper around one of THOSE is an ordinary helper)
    hit = {name for name, ds in fns.items() if name not in pinned and
           any(isinstance(x, ast.Attribute) and x.attr == "sessionAttributes" for d in ds for x in ast.walk(d))}
    for _ in range(4):
        more = set()
        for name, ds in fns.items():
            if name in hit:
                continue
            for d in ds:
                for c in ast.walk(d):
                    if isinstance(c, ast.Call):
                        cn = c.func.id if isinstance(c.func, ast.Name) else c.func.attr if isinstance(c.func, ast.Attribute) else None
                        if cn in hit:
                            more.add(name)
        if not more:
            break
        hit |= more
    return hit
