"""Both-ways self-test of the checkers (thorough tier; also `python -m tpmsa.selftest`).

Each mutant is one edit of /repo's *.py sources applied to a scratch copy (fresh mkdtemp,
removed in `finally`), labelled with the property, the rule that must fire and a fragment the
report must contain.  Benign twins must stay silent.  A mutant whose anchor text is no longer
present in the tree is skipped (reported), not failed: the corpus validates the checker, it is
not a rule about the code.  Failure of the self-test is an ANALYSIS-ERROR (exit 2) of the check,
never a verdict about /repo.
"""
from __future__ import annotations

import os
import shutil
import subprocess
import sys
import tempfile
from concurrent.futures import ThreadPoolExecutor

HERE = os.path.dirname(os.path.dirname(os.path.abspath(__file__)))
REPO = os.environ.get("VERIF_REPO", "/repo")


def load_corpus():
    from .mutants import MUTANTS
    return MUTANTS


def apply_edit(root, m):
    """m['edits'] = [(relpath, old, new, count)] ; returns False if an anchor is missing."""
    import re
    if m.get("patch"):
        # a seeded change kept as a diff (seeded/<id>/patch.diff): apply with git (works outside a repository)
        r = subprocess.run(["git", "apply", "--unsafe-paths", "--directory", root, m["patch"]], capture_output=True, text=True, cwd=root)
        if r.returncode != 0:
            r = subprocess.run(["patch", "-p1", "-s", "-i", m["patch"]], capture_output=True, text=True, cwd=root)
        return r.returncode == 0
    for rel, old, new, *rest in m["edits"]:
        path = os.path.join(root, rel)
        if not os.path.exists(path):
            return False
        with open(path, encoding="utf-8") as fh:
            src = fh.read()
        if rest and rest[0] == "re":
            # regex edit applied to every line that is not an import line
            lines = src.split("\n")
            n = 0
            for i, line in enumerate(lines):
                if line.startswith(("from ", "import ")) or line.strip().startswith(("from .", "from tpmstream")):
                    continue
                new_line, k = re.subn(old, new, line)
                lines[i] = new_line
                n += k
            if n == 0:
                return False
            src = "\n".join(lines)
            try:
                compile(src, path, "exec")
            except SyntaxError:
                raise RuntimeError(f"mutant {m['id']} does not compile")
            with open(path, "w", encoding="utf-8") as fh:
                fh.write(src)
            continue
        want = rest[0] if rest else 1
        if src.count(old) < 1 or (want and src.count(old) != want):
            return False
        src = src.replace(old, new)
        try:
            compile(src, path, "exec")
        except SyntaxError:
            raise RuntimeError(f"mutant {m['id']} does not compile")
        with open(path, "w", encoding="utf-8") as fh:
            fh.write(src)
    return True


def run_one(m, pid):
    tmp = tempfile.mkdtemp(prefix="tpmsa_mut_")
    try:
        shutil.copytree(os.path.join(REPO, "src"), os.path.join(tmp, "src"),
                        ignore=shutil.ignore_patterns("__pycache__", "*.pcap", "*.pyc"))
        if not apply_edit(tmp, m):
            return (m["id"], "skipped", "anchor text not present in the current tree")
        env = dict(os.environ)
        env["VERIF_REPO"] = tmp
        env["TPMSA_EVIDENCE_DIR"] = os.path.join(tmp, "evidence")
        env["PYTHONDONTWRITEBYTECODE"] = "1"
        p = subprocess.run([os.path.join(HERE, "check"), pid, "--tier", "quick"], env=env, cwd=HERE,
                           capture_output=True, text=True, timeout=300)
        out = p.stdout + p.stderr
        if m.get("benign"):
            if p.returncode == 0 and "VIOLATION" not in out:
                return (m["id"], "ok", "benign twin stays silent")
            return (m["id"], "FAIL", f"benign twin raised rc={p.returncode}: {out[-400:]}")
        if p.returncode != 1 or f"VIOLATION property={pid}" not in out:
            return (m["id"], "FAIL", f"not detected (rc={p.returncode}): {out[-300:]}")
        rule = m.get("rule", {}).get(pid) if isinstance(m.get("rule"), dict) else m.get("rule")
        lines = [l for l in out.splitlines() if ": " in l and not l.startswith(("  rule", "[", "VIOLATION", "KNOWN"))]
        if rule and not any(f" {rule} in " in l or l.split(": ", 1)[1].startswith(rule + " ") for l in lines):
            return (m["id"], "FAIL", f"detected but not by rule {rule}: {lines[:3]}")
        frag = m.get("names")
        if isinstance(frag, dict):
            frag = frag.get(pid)
        if frag and not any(frag in l for l in lines):
            return (m["id"], "FAIL", f"report does not name `{frag}`: {lines[:3]}")
        return (m["id"], "ok", lines[0][:160] if lines else "")
    finally:
        shutil.rmtree(tmp, ignore_errors=True)


def run_for(pid, seed=0, verbose=True, run=None):
    corpus = [m for m in load_corpus() if pid in m["props"]]
    if not corpus:
        print(f"  self-test: no mutants registered for {pid}")
        return 0
    with ThreadPoolExecutor(max_workers=min(16, os.cpu_count() or 4)) as ex:
        results = list(ex.map(lambda m: run_one(m, pid), corpus))
    ok = sum(1 for r in results if r[1] == "ok")
    skipped = [r for r in results if r[1] == "skipped"]
    failed = [r for r in results if r[1] == "FAIL"]
    print(f"  self-test {pid}: {len(corpus)} variants, {ok} behaved as labelled, {len(skipped)} skipped, {len(failed)} failed")
    for r in results:
        if verbose or r[1] != "ok":
            print(f"    [{r[1]}] {r[0]}: {r[2]}")
    if run is not None:
        run.cover(selftest={"variants": len(corpus), "ok": ok, "skipped": [r[0] for r in skipped],
                            "failed": [r[0] for r in failed],
                            "killed": [r[0] for r in results if r[1] == "ok"]})
    return 1 if failed else 0


if __name__ == "__main__":
    if len(sys.argv) >= 3 and sys.argv[1] == "--only":
        # one variant against every property it is registered for
        ms = [m for m in load_corpus() if m["id"] in sys.argv[2:]]
        bad = 0
        for m in ms:
            with ThreadPoolExecutor(max_workers=16) as ex:
                for r, pid in zip(ex.map(lambda pid: run_one(m, pid), m["props"]), m["props"]):
                    if r[1] != "ok":
                        bad = 1
                    print(f"  {pid} [{r[1]}] {r[0]}: {r[2][:600] if r[1] != 'ok' else r[2][:120]}")
        sys.exit(bad)
    pids = sys.argv[1:] or sorted({p for m in load_corpus() for p in m["props"]})
    rc = 0
    for pid in pids:
        rc |= run_for(pid, verbose="-q" not in sys.argv)
    sys.exit(rc)
