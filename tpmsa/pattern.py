"""Structural AST patterns with metavariables (formatting- and local-name-independent).

pattern source is Python; identifiers starting with `M_` are metavariables that match any
expression (the same metavariable must match structurally equal sub-trees everywhere).
"""
from __future__ import annotations

import ast


def parse_expr(src):
    return ast.parse(src, mode="eval").body


def parse_stmt(src):
    return ast.parse(src).body[0]


def _d(n):
    return ast.dump(n).replace("ctx=Store()", "ctx=Load()").replace("ctx=Del()", "ctx=Load()")


def same(a, b):
    return _d(a) == _d(b)


def match(node, pat, binds=None):
    """Return dict of bindings if `node` matches `pat`, else None."""
    if binds is None:
        binds = {}
    if isinstance(pat, str):
        pat = parse_expr(pat)
    return binds if _m(node, pat, binds) else None


def _m(n, p, b):
    if isinstance(p, ast.Name) and p.id.startswith("M_"):
        if p.id in b:
            return same(b[p.id], n)
        b[p.id] = n
        return True
    if type(n) is not type(p):
        return False
    for field in p._fields:
        if field in ("ctx", "lineno", "col_offset", "end_lineno", "end_col_offset", "type_comment", "kind"):
            continue
        pv, nv = getattr(p, field, None), getattr(n, field, None)
        if isinstance(pv, list):
            if not isinstance(nv, list) or len(pv) != len(nv):
                return False
            for x, y in zip(nv, pv):
                if isinstance(y, ast.AST):
                    if not _m(x, y, b):
                        return False
                elif x != y:
                    return False
        elif isinstance(pv, ast.AST):
            if not isinstance(nv, ast.AST) or not _m(nv, pv, b):
                return False
        else:
            if pv != nv:
                return False
    return True


def find(root, pat, binds=None):
    """All (node, bindings) in `root` matching `pat`."""
    if isinstance(pat, str):
        pat = parse_expr(pat)
    out = []
    for n in ast.walk(root):
        b = dict(binds or {})
        if _m(n, pat, b):
            out.append((n, b))
    return out


def is_name(node, name):
    return isinstance(node, ast.Name) and node.id == name


def is_attr_of(node, base, attr):
    return isinstance(node, ast.Attribute) and node.attr == attr and is_name(node.value, base)


def canon(src):
    """canonical text of a source fragment (expression or statement), same form as project.norm()."""
    try:
        return ast.unparse(ast.parse(src, mode="eval").body)
    except SyntaxError:
        return ast.unparse(ast.parse(src).body[0])


def canon_all(*srcs):
    return {canon(s) for s in srcs}
