"""Anchor discovery in io/binary/marshal.py: program elements are identified by *role*
(derived from resolved facts), never by text position."""
from __future__ import annotations

import ast

from .project import AnalysisError, Project, call_name, norm, walk_no_nested

MARSHAL = "tpmstream.io.binary.marshal"
CONSTRAINTS = "tpmstream.common.constraints"


def if_chain(stmt):
    """Flatten if/elif/else -> list of (test|None, body)."""
    out = []
    while isinstance(stmt, ast.If):
        out.append((stmt.test, stmt.body))
        if len(stmt.orelse) == 1 and isinstance(stmt.orelse[0], ast.If):
            stmt = stmt.orelse[0]
        else:
            if stmt.orelse:
                out.append((None, stmt.orelse))
            break
    return out


def delegation(body):
    """`x = yield from f(...)` as the only statement -> (target name, call) else None."""
    if len(body) == 1 and isinstance(body[0], ast.Assign) and isinstance(body[0].value, ast.YieldFrom) \
            and isinstance(body[0].value.value, ast.Call) and isinstance(body[0].value.value.func, ast.Name) \
            and isinstance(body[0].targets[0], ast.Name):
        return body[0].targets[0].id, body[0].value.value
    return None


class MarshalRoles:
    def __init__(self, project: Project):
        self.project = project
        self.mod = project.module(MARSHAL)
        self.funcs = {n.name: n for n in self.mod.tree.body if isinstance(n, ast.FunctionDef)}
        self._find_dispatcher()
        self._find_pump()

    def _find_dispatcher(self):
        cands = []
        for f in self.funcs.values():
            for st in f.body:
                if isinstance(st, ast.If):
                    ch = if_chain(st)
                    dels = [delegation(b) for _, b in ch]
                    if len(ch) >= 5 and all(dels) and len({d[0] for d in dels}) == 1:
                        cands.append((f, st, ch, dels))
        if len(cands) != 1:
            raise AnalysisError(f"role `dispatcher` has {len(cands)} bearers in {self.mod.relpath}")
        self.dispatcher, self.dispatch_if, self.dispatch_chain, dels = cands[0]
        self.dispatch_result = dels[0][0]
        self.walkers = {}
        for (test, _), (_, call) in zip(self.dispatch_chain, dels):
            fn = self.funcs.get(call.func.id)
            if fn is None:
                raise AnalysisError(f"dispatcher delegates to unknown function {call.func.id}")
            self.walkers[call.func.id] = fn
        self.dispatch_calls = [d[1] for d in dels]
        self.type_param = self.dispatcher.args.args[0].arg

    def _find_pump(self):
        cands = []
        d = self.dispatcher.name
        for f in self.funcs.values():
            proc = None
            for n in walk_no_nested(f):
                if isinstance(n, ast.Assign) and isinstance(n.value, ast.Call) and call_name(n.value) == d \
                        and isinstance(n.targets[0], ast.Name):
                    proc = n.targets[0].id
            if proc is None:
                continue
            sends = [n for n in walk_no_nested(f) if isinstance(n, ast.Call) and norm(n.func) == f"{proc}.send"]
            # the pump is the driver that feeds the processor from an iterator over one of its own parameters
            fparams = [a.arg for a in f.args.args]
            feeds = [n for n in walk_no_nested(f) if isinstance(n, ast.Call) and call_name(n) == "iter" and len(n.args) == 1
                     and any(isinstance(x, ast.Name) and x.id in fparams for x in ast.walk(n.args[0]))]
            if sends and feeds:
                cands.append((f, proc, sends))
        if len(cands) != 1:
            raise AnalysisError(f"role `pump` has {len(cands)} bearers in {self.mod.relpath}")
        self.pump, self.proc_var, self.sends = cands[0]
        # source iterator: bound from iter(<a parameter>)
        params = [a.arg for a in self.pump.args.args]
        its = [n for n in walk_no_nested(self.pump) if isinstance(n, ast.Assign) and isinstance(n.value, ast.Call)
               and call_name(n.value) == "iter" and len(n.value.args) == 1 and isinstance(n.targets[0], ast.Name)
               and any(isinstance(x, ast.Name) and x.id in params for x in ast.walk(n.value.args[0]))]
        if len(its) != 1:
            raise AnalysisError(f"role `source iterator` has {len(its)} bearers in the pump")
        self.iter_var = its[0].targets[0].id
        self.iter_source = its[0].value.args[0]  # normally the bare buffer parameter
        self.buffer_param = next(x.id for x in ast.walk(its[0].value.args[0]) if isinstance(x, ast.Name) and x.id in params)
        nx = [n for n in walk_no_nested(self.pump) if isinstance(n, ast.Assign) and isinstance(n.value, ast.Call)
              and call_name(n.value) == "next" and n.value.args and isinstance(n.value.args[0], ast.Name)
              and n.value.args[0].id == self.iter_var and isinstance(n.targets[0], ast.Name)]
        if not nx or len({n.targets[0].id for n in nx}) != 1:
            raise AnalysisError("role `look-ahead variable` not found in the pump")
        self.byte_var = nx[0].targets[0].id
        self.next_sites = nx
        # event variable: bound from proc.send(...)
        ev = {n.targets[0].id for n in walk_no_nested(self.pump) if isinstance(n, ast.Assign)
              and isinstance(n.value, ast.Call) and norm(n.value.func) == f"{self.proc_var}.send"
              and isinstance(n.targets[0], ast.Name)}
        if len(ev) != 1:
            raise AnalysisError("role `event variable` not found in the pump")
        self.event_var = ev.pop()
        # depleted flag: the name set to True in the StopIteration handler of a next(iter) site
        flags = set()
        for n in nx:
            t = n._parent
            if isinstance(t, ast.Try):
                for h in t.handlers:
                    if h.type is not None and norm(h.type) == "StopIteration":
                        for s in h.body:
                            if isinstance(s, ast.Assign) and isinstance(s.targets[0], ast.Name) \
                                    and isinstance(s.value, ast.Constant) and s.value.value is True:
                                flags.add(s.targets[0].id)
        # ... or the look-ahead variable itself is the marker: `byte = next(it, None)` at every pull (None = source exhausted)
        sentinel = [n for n in nx if len(n.value.args) == 2 and isinstance(n.value.args[1], ast.Constant) and n.value.args[1].value is None
                    and not n.value.keywords]
        self.sentinel = False
        if not flags and sentinel and len(sentinel) == len(nx):
            self.sentinel = True
            self.depleted_var = None
            return
        if len(flags) != 1 or sentinel:
            raise AnalysisError("role `depleted flag` not found in the pump")
        self.depleted_var = flags.pop()
