"""E2 - dataflow on the CFG: reaching definitions / def-use, exception hierarchy, small helpers."""
from __future__ import annotations

import ast

from .cfg import CFG, Node
from .project import AnalysisError, Project, norm, walk_no_nested


# ------------------------------------------------------------------------------ definitions
def stmt_defs(node: Node):
    """Names (re)bound by this CFG node -> the value expression (or a marker)."""
    a = node.ast
    out = {}
    if node.kind == "entry":
        return out
    if node.kind == "handler":
        if a.name:
            out[a.name] = ("handler", a)
        return out
    if node.kind == "for":
        for n in ast.walk(a.target):
            if isinstance(n, ast.Name):
                out[n.id] = ("for", a)
        return out
    if node.kind == "test":
        for n in ast.walk(a):
            if isinstance(n, ast.NamedExpr) and isinstance(n.target, ast.Name):
                out[n.target.id] = ("expr", n.value)
        return out
    if isinstance(a, ast.Assign):
        for t in a.targets:
            if isinstance(t, ast.Name):
                out[t.id] = ("expr", a.value)
            elif isinstance(t, (ast.Tuple, ast.List)):
                for i, e in enumerate(t.elts):
                    if isinstance(e, ast.Name):
                        out[e.id] = ("unpack", a.value, i)
                    elif isinstance(e, ast.Starred) and isinstance(e.value, ast.Name):
                        out[e.value.id] = ("unpack*", a.value, i)
                    elif isinstance(e, (ast.Tuple, ast.List)):
                        # nested pattern: every name in it is bound by this statement
                        for n in ast.walk(e):
                            if isinstance(n, ast.Name):
                                out[n.id] = ("unpack-nested", a.value, i)
    elif isinstance(a, ast.AnnAssign) and isinstance(a.target, ast.Name) and a.value is not None:
        out[a.target.id] = ("expr", a.value)
    elif isinstance(a, ast.AugAssign) and isinstance(a.target, ast.Name):
        out[a.target.id] = ("aug", a)
    elif isinstance(a, ast.With):
        for it in a.items:
            if isinstance(it.optional_vars, ast.Name):
                out[it.optional_vars.id] = ("with", it.context_expr)
    elif isinstance(a, (ast.FunctionDef, ast.ClassDef)):
        out[a.name] = ("def", a)
    elif isinstance(a, (ast.Import, ast.ImportFrom)):
        for al in a.names:
            out[(al.asname or al.name).split(".")[0]] = ("import", a)
    return out


class ReachingDefs:
    def __init__(self, cfg: CFG):
        self.cfg = cfg
        self.defs = {n.id: stmt_defs(n) for n in cfg.nodes}
        params = [a.arg for a in cfg.fn.args.posonlyargs + cfg.fn.args.args + cfg.fn.args.kwonlyargs]
        if cfg.fn.args.vararg:
            params.append(cfg.fn.args.vararg.arg)
        if cfg.fn.args.kwarg:
            params.append(cfg.fn.args.kwarg.arg)
        self.params = params
        self.defs[cfg.entry.id] = {p: ("param", p) for p in params}
        succ = {n.id: [s.id for _, s in n.succ] for n in cfg.nodes}
        exc = {n.id: [h.id for h in cfg.handlers_of(n)] if n.kind in ("stmt", "test", "for", "handler") else []
               for n in cfg.nodes}
        IN = {n.id: {} for n in cfg.nodes}
        OUT = {n.id: {} for n in cfg.nodes}
        work = [n.id for n in cfg.nodes]
        preds_n = {n.id: [] for n in cfg.nodes}
        preds_x = {n.id: [] for n in cfg.nodes}
        for a, ss in succ.items():
            for b in ss:
                preds_n[b].append(a)
        for a, ss in exc.items():
            for b in ss:
                preds_x[b].append(a)
        changed = True
        while changed:
            changed = False
            for n in cfg.nodes:
                i = n.id
                new_in = {}
                for p in preds_n[i]:
                    for v, ds in OUT[p].items():
                        new_in.setdefault(v, set()).update(ds)
                for p in preds_x[i]:
                    # exception raised somewhere inside p: definitions before or after p may reach
                    for src in (IN[p], OUT[p]):
                        for v, ds in src.items():
                            new_in.setdefault(v, set()).update(ds)
                new_out = {v: set(ds) for v, ds in new_in.items()}
                for v in self.defs[i]:
                    new_out[v] = {i}
                if new_in != IN[i] or new_out != OUT[i]:
                    IN[i], OUT[i] = new_in, new_out
                    changed = True
        self.IN, self.OUT = IN, OUT

    def reaching(self, node: Node, var):
        """def nodes of `var` reaching the *entry* of `node`."""
        return [self.cfg.nodes[i] for i in sorted(self.IN[node.id].get(var, ()))]

    def value_exprs(self, node: Node, var):
        """list of definition records (kind, ...) of var reaching node."""
        return [self.defs[d.id][var] for d in self.reaching(node, var)]

    def single_expr(self, node: Node, var):
        """The unique defining expression of var at node, or None."""
        recs = self.value_exprs(node, var)
        if len(recs) == 1 and recs[0][0] == "expr":
            return recs[0][1]
        return None

    def maybe_unbound(self, node: Node, var):
        """True if some path reaches `node` with no definition of var (local scope only)."""
        # a var is surely bound if every path from entry passes a def: approximate with
        # "the set of reaching defs exists on all predecessors" -> do a must-analysis
        return var not in self.must_defined()[node.id]

    def must_defined(self):
        if hasattr(self, "_must"):
            return self._must
        cfg = self.cfg
        allv = set()
        for d in self.defs.values():
            allv.update(d)
        succ = {n.id: [s.id for _, s in n.succ] for n in cfg.nodes}
        preds = {n.id: [] for n in cfg.nodes}
        for a, ss in succ.items():
            for b in ss:
                preds[b].append(("n", a))
        for n in cfg.nodes:
            if n.kind in ("stmt", "test", "for", "handler"):
                for h in cfg.handlers_of(n):
                    preds[h.id].append(("x", n.id))
        IN = {n.id: set(allv) for n in cfg.nodes}
        OUT = {n.id: set(allv) for n in cfg.nodes}
        IN[cfg.entry.id] = set()
        OUT[cfg.entry.id] = set(self.defs[cfg.entry.id])
        changed = True
        while changed:
            changed = False
            for n in cfg.nodes:
                i = n.id
                if i == cfg.entry.id:
                    continue
                ps = []
                for kind, p in preds[i]:
                    ps.append(OUT[p] if kind == "n" else IN[p])
                new_in = set.intersection(*ps) if ps else set(allv)
                new_out = new_in | set(self.defs[i])
                if new_in != IN[i] or new_out != OUT[i]:
                    IN[i], OUT[i] = new_in, new_out
                    changed = True
        self._must = IN
        return IN


# ------------------------------------------------------------------------------ exception hierarchy
BUILTIN_EXC = {
    "BaseException": None, "Exception": "BaseException", "StopIteration": "Exception",
    "ArithmeticError": "Exception", "LookupError": "Exception", "KeyError": "LookupError",
    "IndexError": "LookupError", "ValueError": "Exception", "TypeError": "Exception",
    "AssertionError": "Exception", "AttributeError": "Exception", "NameError": "Exception",
    "UnboundLocalError": "NameError", "RuntimeError": "Exception", "NotImplementedError": "RuntimeError",
    "OverflowError": "ArithmeticError", "ZeroDivisionError": "ArithmeticError", "OSError": "Exception",
    "IOError": "Exception", "RecursionError": "RuntimeError", "GeneratorExit": "BaseException",
    "ModuleNotFoundError": "Exception", "ImportError": "Exception", "UnicodeDecodeError": "ValueError",
}


class ExcHierarchy:
    def __init__(self, project: Project):
        self.parent = dict(BUILTIN_EXC)
        mod = project.module("tpmstream.common.error")
        for c in mod.tree.body:
            if isinstance(c, ast.ClassDef):
                bases = [norm(b) for b in c.bases]
                self.parent[c.name] = bases[0] if bases else "object"
        self.repo_classes = {c.name for c in mod.tree.body if isinstance(c, ast.ClassDef)}

    def is_subclass(self, a, b):
        a, b = a.split(".")[-1], b.split(".")[-1]
        seen = set()
        while a is not None and a not in seen:
            if a == b:
                return True
            seen.add(a)
            a = self.parent.get(a)
        return False

    def known(self, name):
        return name.split(".")[-1] in self.parent


# ------------------------------------------------------------------------------ misc helpers
def yields_in(node):
    """Yield / YieldFrom expressions inside a statement (not descending into nested defs)."""
    out = []
    if isinstance(node, (ast.Yield, ast.YieldFrom)):
        out.append(node)
    for n in walk_no_nested(node):
        if isinstance(n, (ast.Yield, ast.YieldFrom)):
            out.append(n)
    return out


def calls_in(node):
    out = []
    if isinstance(node, ast.Call):
        out.append(node)
    for n in walk_no_nested(node):
        if isinstance(n, ast.Call):
            out.append(n)
    return out


def is_generator(fn):
    return any(isinstance(n, (ast.Yield, ast.YieldFrom)) for n in walk_no_nested(fn))
