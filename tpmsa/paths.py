"""Path summaries: a syntax-directed enumeration of the acyclic paths of a function (or of a loop
body) with a symbolic store, so that rules can be stated over *what a path does under which
conditions* instead of over how the branches happen to be written.

 - every local is expanded to the expression it stands for on that path (assignments are followed,
   conditional expressions and short-circuit operators fork the path), so hoisting a value into a
   local, merging two `if`s into `a or b`, turning `if/else` into early returns or into a
   conditional expression all give the same set of summaries;
 - a condition is decomposed into atoms in canonical polarity (`x is not None` is the atom
   `x is None` taken false, `a != b` is `a == b` false, `a > b` is `b < a`, emptiness tests of a
   list-valued local are one atom), an atom keeps one value along a path (infeasible paths are
   dropped), and conditions that fold on literal values are not recorded;
 - effects (yield / return / raise / calls in statement position / stores through a subscript or
   attribute) are recorded in order with fully expanded operands.

No solver and no execution: the only reasoning is substitution, constant folding of literal tests
and the consistency of repeated atoms.  Anything not modelled raises AnalysisError.
"""
from __future__ import annotations

import ast
import copy

from .project import AnalysisError, norm

MAX_PATHS = 4000


def clone(node):
    """structural copy of an AST (fields and positions only: parent links and other annotations are not followed)"""
    if isinstance(node, list):
        return [clone(x) for x in node]
    if not isinstance(node, ast.AST):
        return node
    new = node.__class__.__new__(node.__class__)
    for f in node._fields:
        try:
            setattr(new, f, clone(getattr(node, f)))
        except AttributeError:
            pass
    for a in ("lineno", "col_offset", "end_lineno", "end_col_offset"):
        if hasattr(node, a):
            setattr(new, a, getattr(node, a))
    return new


# ------------------------------------------------------------------------------- canonical text
class _Flatten(ast.NodeTransformer):
    """nested f-strings without format spec are spliced into the enclosing one; adjacent constants merge;
    `"sep".join((a, b, c))` over a literal tuple / list is the f-string `{a}sep{b}sep{c}`"""

    def visit_Call(self, node):
        self.generic_visit(node)
        f = node.func
        if isinstance(f, ast.Name) and f.id in ("list", "tuple", "set", "sorted", "len", "iter") and len(node.args) == 1 and not node.keywords \
                and isinstance(node.args[0], ast.Call) and isinstance(node.args[0].func, ast.Attribute) and node.args[0].func.attr == "keys" \
                and not node.args[0].args and not node.args[0].keywords:
            node.args = [node.args[0].func.value]  # iterating a dict iterates its keys
            return node
        # binascii.hexlify(b).decode() is b.hex()
        if isinstance(f, ast.Attribute) and f.attr == "decode" and not node.args and not node.keywords and isinstance(f.value, ast.Call) \
                and norm(f.value.func) in ("binascii.hexlify", "hexlify") and len(f.value.args) == 1 and not f.value.keywords:
            return ast.copy_location(ast.Call(func=ast.Attribute(value=f.value.args[0], attr="hex", ctx=ast.Load()), args=[], keywords=[]), node)
        if isinstance(f, ast.Name) and f.id == "getattr" and len(node.args) == 2 and not node.keywords \
                and isinstance(node.args[1], ast.Constant) and isinstance(node.args[1].value, str) and node.args[1].value.isidentifier():
            return ast.copy_location(ast.Attribute(value=node.args[0], attr=node.args[1].value, ctx=ast.Load()), node)
        if isinstance(f, ast.Attribute) and f.attr == "join" and isinstance(f.value, ast.Constant) and isinstance(f.value.value, str) \
                and len(node.args) == 1 and not node.keywords and isinstance(node.args[0], (ast.Tuple, ast.List)) \
                and not any(isinstance(x, ast.Starred) for x in node.args[0].elts):
            vals = []
            for i, x in enumerate(node.args[0].elts):
                if i and f.value.value:
                    vals.append(ast.Constant(value=f.value.value))
                if isinstance(x, ast.JoinedStr):
                    vals.extend(x.values)
                elif isinstance(x, ast.Constant) and isinstance(x.value, str):
                    vals.append(x)
                else:
                    vals.append(ast.FormattedValue(value=x, conversion=-1, format_spec=None))
            return self.visit_JoinedStr(ast.copy_location(ast.JoinedStr(values=vals), node))
        return node

    def visit_BinOp(self, node):
        self.generic_visit(node)
        # concatenation of text pieces is one f-string
        if isinstance(node.op, ast.Add):
            def parts(x):
                if isinstance(x, ast.JoinedStr):
                    return list(x.values)
                if isinstance(x, ast.Constant) and isinstance(x.value, str):
                    return [x]
                return None
            a, b = parts(node.left), parts(node.right)
            if a is not None and b is not None and (isinstance(node.left, ast.JoinedStr) or isinstance(node.right, ast.JoinedStr)):
                return self.visit_JoinedStr(ast.copy_location(ast.JoinedStr(values=a + b), node))
        return node

    def visit_JoinedStr(self, node):
        self.generic_visit(node)
        for v in node.values:
            # a format spec that is built from constants only (`{x: <{20}}`) is that constant spec (`{x: <20}`)
            if isinstance(v, ast.FormattedValue) and isinstance(v.format_spec, ast.JoinedStr):
                sv = v.format_spec.values
                if sv and all(isinstance(x, ast.Constant) or (isinstance(x, ast.FormattedValue) and isinstance(x.value, ast.Constant)
                                                              and x.conversion == -1 and x.format_spec is None) for x in sv):
                    v.format_spec = ast.JoinedStr(values=[ast.Constant(value="".join(
                        str(x.value) if isinstance(x, ast.Constant) else str(x.value.value) for x in sv))])
        out = []
        for v in node.values:
            if isinstance(v, ast.FormattedValue) and v.conversion == -1 and v.format_spec is None and isinstance(v.value, ast.JoinedStr):
                out.extend(v.value.values)
            elif isinstance(v, ast.FormattedValue) and v.conversion == -1 and v.format_spec is None and isinstance(v.value, ast.Constant) \
                    and isinstance(v.value.value, str):
                out.append(v.value)
            else:
                out.append(v)
        merged = []
        for v in out:
            if isinstance(v, ast.Constant) and merged and isinstance(merged[-1], ast.Constant):
                merged[-1] = ast.Constant(value=merged[-1].value + v.value)
            else:
                merged.append(v)
        node.values = merged
        return node


def flatten(e):
    e = _Flatten().visit(clone(e))
    ast.fix_missing_locations(e)
    return e


def pattern_expr(src):
    return ast.parse(src, mode="eval").body


def text(e):
    needs = any(isinstance(n, ast.JoinedStr) or (isinstance(n, ast.Call) and isinstance(n.func, ast.Name) and n.func.id == "getattr")
                or (isinstance(n, ast.Attribute) and n.attr == "decode")
                or (isinstance(n, ast.Attribute) and n.attr == "keys")
                or (isinstance(n, ast.Call) and isinstance(n.func, ast.Attribute) and n.func.attr == "join") for n in ast.walk(e))
    return norm(flatten(e)) if needs else norm(e)


# --------------------------------------------------------------------------------------- paths
class Path:
    def __init__(self):
        self.cond = []      # [(atom text, bool, node)]
        self.effects = []   # [(kind, expanded expr or None, node)]
        self.env = {}
        self.end = None     # 'return' | 'raise' | 'fall' | 'continue' | 'break'
        self.value = None   # expanded return / raise expression
        self.node = None
        self.loops = {}     # id(loop statement) -> [Path] of one iteration of its body
        self.notnone = set()  # opaque names known to hold a freshly constructed object (never None)

    def fork(self):
        p = Path()
        p.cond = list(self.cond)
        p.effects = list(self.effects)
        p.env = dict(self.env)
        p.loops = dict(self.loops)
        p.notnone = set(self.notnone)
        return p

    def loop_paths(self):
        """paths of one iteration of every loop on this path, in source order"""
        return [sub for _, sub in sorted(self.loops.items(), key=lambda kv: min((s.node.lineno for s in kv[1] if s.node is not None), default=0))]

    def truth(self, atom):
        for a, v, _ in self.cond:
            if a == atom:
                return v
        return None

    def conds(self):
        return {a: v for a, v, _ in self.cond}

    def value_text(self):
        return None if self.value is None else text(self.value)

    def effect_texts(self, kinds=None):
        return [(k, None if e is None else text(e)) for k, e, _ in self.effects if kinds is None or k in kinds]

    def __repr__(self):
        c = " & ".join(("" if v else "not ") + a for a, v, _ in self.cond)
        return f"<{c or 'always'} => {self.effect_texts()} {self.end} {self.value_text()}>"


class _Expand(ast.NodeTransformer):
    helpers = {}   # set per Summariser: {name: (params, expression)} of new one-expression functions of the module

    def __init__(self, env, known_none=()):
        self.env = env
        self.known_none = known_none

    def visit_Name(self, node):
        if isinstance(node.ctx, ast.Load) and node.id in self.env:
            v = self.env[node.id]
            if v is not None:
                return clone(v)
        elif isinstance(node.ctx, ast.Load) and node.id in self.known_none:
            # a name never bound on this path (a parameter) that the path's condition says is None
            return ast.copy_location(ast.Constant(value=None), node)
        return node

    def visit_Lambda(self, node):
        return node

    def visit_Attribute(self, node):
        self.generic_visit(node)
        v = node.value
        # the first element whose attribute A equals X has A == X: next(e for e in S if e.A == X).A is X
        if isinstance(v, ast.Call) and isinstance(v.func, ast.Name) and v.func.id == "next" and len(v.args) == 1 and not v.keywords \
                and isinstance(v.args[0], ast.GeneratorExp) and len(v.args[0].generators) == 1:
            g = v.args[0].generators[0]
            if isinstance(g.target, ast.Name) and isinstance(v.args[0].elt, ast.Name) and v.args[0].elt.id == g.target.id \
                    and len(g.ifs) == 1 and isinstance(g.ifs[0], ast.Compare) and len(g.ifs[0].ops) == 1 \
                    and isinstance(g.ifs[0].ops[0], ast.Eq):
                l, r = g.ifs[0].left, g.ifs[0].comparators[0]
                for a_, b_ in ((l, r), (r, l)):
                    if isinstance(a_, ast.Attribute) and a_.attr == node.attr and isinstance(a_.value, ast.Name) \
                            and a_.value.id == g.target.id and not any(isinstance(x, ast.Name) and x.id == g.target.id for x in ast.walk(b_)):
                        return b_
        return node

    def visit_Call(self, node):
        self.generic_visit(node)
        f = node.func
        # first match in a literal table: next((V for K, V in {k1: v1, ...}.items() if P(K)), d) = v1 if P(k1) else ... else d
        if isinstance(f, ast.Name) and f.id == "next" and 1 <= len(node.args) <= 2 and not node.keywords and \
                isinstance(node.args[0], ast.GeneratorExp) and len(node.args[0].generators) == 1:
            g = node.args[0].generators[0]
            it = g.iter
            if isinstance(it, ast.Call) and isinstance(it.func, ast.Attribute) and it.func.attr == "items" and isinstance(it.func.value, ast.Dict) \
                    and it.func.value.keys and all(k is not None and isinstance(k, (ast.Name, ast.Attribute, ast.Constant)) for k in it.func.value.keys) \
                    and all(isinstance(v, (ast.Name, ast.Attribute, ast.Constant)) for v in it.func.value.values) \
                    and isinstance(g.target, ast.Tuple) and len(g.target.elts) == 2 and all(isinstance(e, ast.Name) for e in g.target.elts) \
                    and len(g.ifs) == 1 and len(node.args) == 2:
                kn, vn = (e.id for e in g.target.elts)
                out = node.args[1]
                for k, v in reversed(list(zip(it.func.value.keys, it.func.value.values))):
                    sub = {kn: k, vn: v}
                    test = _Expand(sub).visit(clone(g.ifs[0]))
                    elt = _Expand(sub).visit(clone(node.args[0].elt))
                    out = ast.IfExp(test=test, body=elt, orelse=out)
                return ast.fix_missing_locations(ast.copy_location(out, node))
        # map(f, xs) is (f(x) for x in xs)
        if isinstance(f, ast.Name) and f.id == "map" and len(node.args) == 2 and not node.keywords and isinstance(node.args[0], (ast.Name, ast.Attribute)):
            v = ast.Name(id="_m", ctx=ast.Load())
            gen = ast.GeneratorExp(elt=ast.Call(func=node.args[0], args=[v], keywords=[]),
                                   generators=[ast.comprehension(target=ast.Name(id="_m", ctx=ast.Store()), iter=node.args[1], ifs=[], is_async=0)])
            return ast.fix_missing_locations(ast.copy_location(gen, node))
        # (f if c else g)(args) is f(args) if c else g(args)
        if isinstance(f, ast.IfExp):
            a_ = ast.Call(func=f.body, args=node.args, keywords=node.keywords)
            b_ = ast.Call(func=f.orelse, args=[clone(x) for x in node.args], keywords=[clone(x) for x in node.keywords])
            out = ast.IfExp(test=f.test, body=self.visit_Call(ast.copy_location(a_, node)), orelse=self.visit_Call(ast.copy_location(b_, node)))
            return ast.fix_missing_locations(ast.copy_location(out, node))
        # a call of a small new function of this module whose body is one expression stands for that expression
        if isinstance(f, ast.Name) and f.id in self.helpers and not node.keywords and not any(isinstance(a, ast.Starred) for a in node.args):
            params, expr = self.helpers[f.id]
            if len(params) == len(node.args):
                return ast.fix_missing_locations(ast.copy_location(_Expand(dict(zip(params, node.args))).visit(clone(expr)), node))
        if isinstance(f, ast.Attribute) and f.attr in ("values", "keys") and isinstance(f.value, ast.Dict) and not node.args \
                and not node.keywords and f.value.keys and all(k is not None for k in f.value.keys):
            # the values / keys of a literal table are the tuple of them
            elts = list(f.value.values if f.attr == "values" else f.value.keys)
            return ast.fix_missing_locations(ast.copy_location(ast.Tuple(elts=elts, ctx=ast.Load()), node))
        if isinstance(f, ast.Attribute) and f.attr == "get" and isinstance(f.value, ast.Dict) and 1 <= len(node.args) <= 2 \
                and not node.keywords and f.value.keys and all(isinstance(k, ast.Constant) for k in f.value.keys) \
                and all(isinstance(v, (ast.Name, ast.Attribute, ast.Constant)) for v in f.value.values) \
                and len({repr(k.value) for k in f.value.keys}) == len(f.value.keys):
            # a lookup in a literal table is a case distinction on the key: {k1: v1, ...}.get(x, d) = v1 if x == k1 else ... else d
            out = node.args[1] if len(node.args) == 2 else ast.Constant(value=None)
            for k, v in reversed(list(zip(f.value.keys, f.value.values))):
                out = ast.IfExp(test=ast.Compare(left=clone(node.args[0]), ops=[ast.Eq()], comparators=[k]), body=v, orelse=out)
            return ast.fix_missing_locations(ast.copy_location(out, node))
        if any(k.arg is None and isinstance(k.value, ast.Dict) and all(
                x is not None and isinstance(x, ast.Constant) and isinstance(x.value, str) for x in k.value.keys) for k in node.keywords):
            kws = []
            for k in node.keywords:
                if k.arg is None and isinstance(k.value, ast.Dict) and all(
                        x is not None and isinstance(x, ast.Constant) and isinstance(x.value, str) for x in k.value.keys):
                    kws.extend(ast.keyword(arg=x.value, value=v) for x, v in zip(k.value.keys, k.value.values))
                else:
                    kws.append(k)
            node.keywords = kws
        return node

    def _comp(self, node):
        # comprehension targets shadow - except in the first iterable, which is evaluated in the enclosing scope
        bound = {n.id for g in node.generators for n in ast.walk(g.target) if isinstance(n, ast.Name)}
        first_iter = self.visit(node.generators[0].iter)
        inner = _Expand({k: v for k, v in self.env.items() if k not in bound})
        node.generators[0].iter = ast.Constant(value=None)
        inner.generic_visit(node)
        node.generators[0].iter = first_iter
        return node

    visit_ListComp = visit_SetComp = visit_DictComp = visit_GeneratorExp = _comp


# classes of the repository whose instances are mutable objects with identity (never substituted for their name)
IDENTITY_CLASSES = ("SizeConstraint", "SizeConstraintList")
CONSTRUCTORS = {"bytes", "int", "str", "list", "tuple", "dict", "set", "bytearray", "bool", "float", "iter", "len", "repr"}
IMPURE_CALLS = {"next", "print", "input", "open", "iter", "exit", "sys.exit"}
IMPURE_METHODS = {"append", "extend", "insert", "pop", "remove", "clear", "update", "setdefault", "add", "discard", "sort", "reverse",
                  "popitem", "send", "throw", "close", "write", "read", "set_constraint", "assert_done", "bytes_processed",
                  "set_bytes_remaining", "parse_args", "add_argument", "add_parser", "set_defaults"}


_stateful_cache = {}


def _stateful_functions(mod):
    """module-level functions that advance an iterator / generator they are handed (next, send, yield): two calls with the
    same text are different values, so their results are never substituted"""
    key = id(mod)
    if key not in _stateful_cache:
        out = set()
        fns = {n.name: n for n in getattr(mod, "tree", ast.Module(body=[], type_ignores=[])).body if isinstance(n, ast.FunctionDef)}
        changed = True
        while changed:
            changed = False
            for name, f in fns.items():
                if name in out:
                    continue
                if any(isinstance(n, (ast.Yield, ast.YieldFrom)) for n in ast.walk(f)):
                    continue  # calling a generator function advances nothing
                for n in ast.walk(f):
                    if isinstance(n, ast.Call) and (
                            (norm(n.func) == "next" and n.args and isinstance(n.args[0], ast.Name))
                            or (isinstance(n.func, ast.Attribute) and n.func.attr in ("send", "throw"))
                            or (isinstance(n.func, ast.Name) and n.func.id in out)):
                        out.add(name)
                        changed = True
                        break
        _stateful_cache[key] = out
    return _stateful_cache[key]


class Summariser:
    def __init__(self, mod, fn, impure=(), pure=(), list_vars=None, max_paths=MAX_PATHS, predicate=False):
        self.mod, self.fn = mod, fn
        self.predicate = predicate  # the function answers yes/no: returned conditions are decomposed into True / False
        self.impure = set(IMPURE_CALLS) | set(impure) | _stateful_functions(mod)
        self.pure = set(pure)
        self.max_paths = max_paths
        self.list_vars = self._list_vars() if list_vars is None else set(list_vars)
        # locals that are only keyword-argument bundles (`**name`, `name["k"] = v`, `"k" in name`): treated as values
        splat = {k.value.id for c in ast.walk(fn) if isinstance(c, ast.Call) and not (isinstance(c.func, ast.Name) and c.func.id == "tpm_type")
                 for k in c.keywords if k.arg is None and isinstance(k.value, ast.Name)}
        other = set()
        for n in ast.walk(fn):
            if isinstance(n, ast.Name) and n.id in splat and isinstance(n.ctx, ast.Load):
                p_ = getattr(n, "_parent", None)
                ok = isinstance(p_, ast.keyword) and p_.arg is None
                ok = ok or (isinstance(p_, ast.Subscript) and p_.value is n and isinstance(p_.ctx, ast.Store) and isinstance(p_.slice, ast.Constant))
                ok = ok or (isinstance(p_, ast.Compare) and n in p_.comparators and isinstance(p_.ops[0], (ast.In, ast.NotIn)))
                if not ok:
                    other.add(n.id)
        self.kwdicts = splat - other
        # module-level names that denote a class, a function or an imported object (never None), unless the function rebinds them
        local = {n.id for n in ast.walk(fn) if isinstance(n, ast.Name) and isinstance(n.ctx, (ast.Store, ast.Del))} | \
            {a.arg for a in ast.walk(fn.args) if isinstance(a, ast.arg)}
        objs, assigned = set(), set()
        for st in getattr(mod, "tree", ast.Module(body=[], type_ignores=[])).body:
            if isinstance(st, (ast.ClassDef, ast.FunctionDef, ast.AsyncFunctionDef)):
                objs.add(st.name)
            elif isinstance(st, (ast.Import, ast.ImportFrom)):
                objs |= {(a.asname or a.name).split(".")[0] for a in st.names}
            else:
                assigned |= {n.id for n in ast.walk(st) if isinstance(n, ast.Name) and isinstance(n.ctx, (ast.Store, ast.Del))}
        self.module_objects = objs - assigned - local
        # new (not pinned) module-level functions whose body is a single effect-free expression: their calls are expanded
        self.expr_helpers = {}
        try:
            from . import normalise as _N
            shape = (_N.load_shape() or {}).get(getattr(mod, "name", ""), None)
        except Exception:  # pragma: no cover
            shape = None
        if shape is not None:
            for st in getattr(mod, "tree", ast.Module(body=[], type_ignores=[])).body:
                if isinstance(st, ast.FunctionDef) and st.name not in shape["functions"] and not st.decorator_list and st is not fn:
                    a = st.args
                    if a.vararg or a.kwarg or a.kwonlyargs or a.posonlyargs or a.defaults:
                        continue
                    try:
                        ex = _N.as_expression(_N._strip_doc(st.body))
                    except Exception:
                        ex = None
                    if ex is not None and _N.is_pure(ex):
                        self.expr_helpers[st.name] = ([x.arg for x in a.args], ex)

    # names only ever bound to list displays / list comprehensions / list(...) in this function
    def _list_vars(self):
        vals = {}
        for n in ast.walk(self.fn):
            if isinstance(n, ast.Assign):
                for t in n.targets:
                    if isinstance(t, ast.Name):
                        vals.setdefault(t.id, []).append(n.value)
            elif isinstance(n, (ast.AugAssign, ast.AnnAssign)) and isinstance(n.target, ast.Name):
                vals.setdefault(n.target.id, []).append(n.value if isinstance(n, ast.AnnAssign) and n.value is not None else ast.Name(id="?"))
            elif isinstance(n, (ast.For, ast.comprehension)):
                for x in ast.walk(n.target):
                    if isinstance(x, ast.Name):
                        vals.setdefault(x.id, []).append(ast.Name(id="?"))
        params = {a.arg for a in ast.walk(self.fn.args) if isinstance(a, ast.arg)}
        out = set()
        for k, vs in vals.items():
            if k in params:
                continue
            if all(isinstance(v, (ast.List, ast.ListComp)) or (isinstance(v, ast.Call) and norm(v.func) == "list") for v in vs):
                out.add(k)
        return out

    # ------------------------------------------------------------------ expressions
    def expand(self, e, p):
        if e is None:
            return None
        none = {a[:-len(" is None")] for a, v, _ in p.cond if v and a.endswith(" is None") and a[:-len(" is None")].isidentifier()}
        _Expand.helpers = self.expr_helpers
        out = _Expand(p.env, none - set(p.env)).visit(clone(e))
        ast.fix_missing_locations(out)
        return out

    def is_effectful(self, e):
        for n in ast.walk(e):
            if isinstance(n, (ast.Yield, ast.YieldFrom, ast.Await, ast.NamedExpr)):
                return True
            if isinstance(n, ast.Call):
                nm = norm(n.func)
                if nm in self.pure:
                    continue
                if nm == "next" and n.args and isinstance(n.args[0], ast.GeneratorExp):
                    continue  # first item of a fresh generator: no state is shared
                if nm in self.impure:
                    return True
                if isinstance(n.func, ast.Attribute) and n.func.attr in IMPURE_METHODS:
                    return True
        return False

    # ------------------------------------------------------------------- conditions
    def atom(self, e):
        """(atom text, polarity) of an expanded, non-boolean-operator test"""
        if isinstance(e, ast.UnaryOp) and isinstance(e.op, ast.Not):
            a, pol = self.atom(e.operand)
            return a, not pol
        if isinstance(e, ast.Compare) and len(e.ops) == 1:
            l, op, r = e.left, e.ops[0], e.comparators[0]
            lt, rt = text(l), text(r)
            if isinstance(op, ast.Is):
                return f"{lt} is {rt}", True
            if isinstance(op, ast.IsNot):
                return f"{lt} is {rt}", False
            if isinstance(op, (ast.Eq, ast.NotEq)):
                pol = isinstance(op, ast.Eq)
                # emptiness of a list-valued local
                for a, b in ((l, r), (r, l)):
                    if isinstance(b, ast.List) and not b.elts and isinstance(a, ast.Name) and a.id in self.list_vars:
                        return f"truthy {a.id}", not pol
                    if isinstance(b, ast.Constant) and b.value == 0 and isinstance(a, ast.Call) and norm(a.func) == "len" and a.args:
                        return f"truthy {text(a.args[0])}", not pol
                # constants to the right
                if isinstance(l, ast.Constant) and not isinstance(r, ast.Constant):
                    lt, rt = rt, lt
                return f"{lt} == {rt}", pol
            if isinstance(op, ast.In):
                return f"{lt} in {rt}", True
            if isinstance(op, ast.NotIn):
                return f"{lt} in {rt}", False
            if isinstance(op, ast.Lt):
                return f"{lt} < {rt}", True
            if isinstance(op, ast.Gt):
                if isinstance(r, ast.Constant) and r.value == 0 and isinstance(l, ast.Call) and norm(l.func) == "len" and l.args:
                    return f"truthy {text(l.args[0])}", True
                return f"{rt} < {lt}", True
            if isinstance(op, ast.GtE):
                return f"{lt} < {rt}", False
            if isinstance(op, ast.LtE):
                return f"{rt} < {lt}", False
        if isinstance(e, ast.Name) and e.id in self.list_vars:
            return f"truthy {e.id}", True
        # a list / dict / set built from every element of a tuple (`fields(T)`) is empty exactly when the tuple is
        if isinstance(e, (ast.ListComp, ast.DictComp, ast.SetComp)) and len(e.generators) == 1 and not e.generators[0].ifs \
                and isinstance(e.generators[0].iter, ast.Call) and norm(e.generators[0].iter.func) == "fields":
            return self.atom(e.generators[0].iter)
        if isinstance(e, ast.Call) and norm(e.func) in ("list", "tuple") and len(e.args) == 1 and isinstance(e.args[0], ast.Call) \
                and norm(e.args[0].func) == "fields":
            return self.atom(e.args[0])
        if isinstance(e, ast.Call) and norm(e.func) == "bool" and len(e.args) == 1:
            return self.atom(e.args[0])
        if isinstance(e, ast.Call):
            return text(e), True
        return f"truthy {text(e)}", True

    @staticmethod
    def fold(e):
        """truth value of a test that is decided by literals alone, else None"""
        if isinstance(e, ast.Constant):
            return bool(e.value)
        if isinstance(e, (ast.Tuple, ast.List, ast.Set)):
            return bool(e.elts)
        if isinstance(e, ast.Dict):
            return bool(e.keys)
        if isinstance(e, ast.JoinedStr) and any(isinstance(v, ast.Constant) and v.value for v in e.values):
            return True
        if isinstance(e, ast.Call) and isinstance(e.func, ast.Name) and e.func.id.endswith(("Error", "Exception", "Event")):
            return True  # a freshly constructed exception / event object is truthy
        if isinstance(e, ast.Compare) and len(e.ops) == 1:
            l, op, r = e.left, e.ops[0], e.comparators[0]
            if isinstance(op, (ast.Is, ast.IsNot, ast.Eq, ast.NotEq)) and isinstance(l, (ast.Name, ast.Attribute)) \
                    and isinstance(r, (ast.Name, ast.Attribute)) and norm(l) == norm(r) and norm(l).replace(".", "").replace("_", "").isalnum():
                return isinstance(op, (ast.Is, ast.Eq))  # the same name denotes the same object
            if isinstance(op, (ast.Is, ast.IsNot)):
                def kind(x):
                    if isinstance(x, ast.Constant):
                        return ("const", repr(x.value)) if x.value is None or x.value is Ellipsis or isinstance(x.value, bool) else ("obj", None)
                    if isinstance(x, (ast.Tuple, ast.List, ast.Dict, ast.Set, ast.JoinedStr, ast.ListComp, ast.DictComp, ast.BinOp)):
                        return ("obj", None)
                    if isinstance(x, ast.Call) and isinstance(x.func, ast.Name) and x.func.id[:1].isupper():
                        return ("obj", None)  # an instance
                    if isinstance(x, ast.Call) and isinstance(x.func, ast.Name) and x.func.id in (
                            "bytes", "bytearray", "list", "dict", "tuple", "set", "frozenset", "str", "int", "len", "bool"):
                        return ("obj", None)  # the result of a builtin constructor
                    return None
                kl, kr = kind(l), kind(r)
                if kl and kr and (kl[0] == "const" or kr[0] == "const"):
                    same = kl == kr and kl[0] == "const"
                    return same if isinstance(op, ast.Is) else not same
            if isinstance(op, (ast.Eq, ast.NotEq)) and isinstance(l, ast.Constant) and isinstance(r, ast.Constant):
                return (l.value == r.value) if isinstance(op, ast.Eq) else (l.value != r.value)
            if isinstance(op, (ast.In, ast.NotIn)) and isinstance(l, ast.Constant) and isinstance(r, ast.Dict) \
                    and all(x is not None and isinstance(x, ast.Constant) for x in r.keys):
                hit = l.value in [x.value for x in r.keys]
                return hit if isinstance(op, ast.In) else not hit
            if isinstance(op, (ast.In, ast.NotIn)) and isinstance(l, ast.Constant) and isinstance(r, (ast.Tuple, ast.List, ast.Set)) \
                    and all(isinstance(x, ast.Constant) for x in r.elts):
                hit = l.value in [x.value for x in r.elts]
                return hit if isinstance(op, ast.In) else not hit
        return None

    def outcomes(self, e, p):
        """yield (path, bool) for every way the expanded test `e` can evaluate from path p"""
        if isinstance(e, ast.BoolOp):
            is_and = isinstance(e.op, ast.And)

            def rec(i, q):
                if i == len(e.values):
                    yield q, is_and
                    return
                for q2, v in self.outcomes(e.values[i], q):
                    if v != is_and:
                        yield q2, v
                    else:
                        yield from rec(i + 1, q2)
            yield from rec(0, p)
            return
        if isinstance(e, ast.UnaryOp) and isinstance(e.op, ast.Not):
            for q, v in self.outcomes(e.operand, p):
                yield q, not v
            return
        if isinstance(e, ast.IfExp):
            for q, v in self.outcomes(e.test, p):
                yield from self.outcomes(e.body if v else e.orelse, q)
            return
        if isinstance(e, ast.Call) and norm(e.func) == "getattr" and len(e.args) == 3 and isinstance(e.args[1], ast.Constant) \
                and isinstance(e.args[2], ast.Constant) and not e.args[2].value and not e.keywords:
            # getattr(o, "a", <falsy>) as a condition is `hasattr(o, "a") and o.a`
            both = ast.BoolOp(op=ast.And(), values=[
                ast.Call(func=ast.Name(id="hasattr", ctx=ast.Load()), args=[e.args[0], e.args[1]], keywords=[]),
                ast.Attribute(value=e.args[0], attr=e.args[1].value, ctx=ast.Load())])
            ast.fix_missing_locations(both)
            yield from self.outcomes(both, p)
            return
        if isinstance(e, ast.Compare) and len(e.ops) > 1 and not any(self.is_effectful(x) for x in [e.left] + e.comparators):
            # a chained comparison of effect-free operands is the conjunction of its links
            links, left = [], e.left
            for op, right in zip(e.ops, e.comparators):
                links.append(ast.Compare(left=left, ops=[op], comparators=[right]))
                left = right
            both = ast.BoolOp(op=ast.And(), values=links)
            ast.copy_location(both, e)
            ast.fix_missing_locations(both)
            yield from self.outcomes(both, p)
            return
        hit = _first_ifexp(e)
        if hit is not None:
            # a conditional expression nested in the test (`(a if c else b) is None`): decide c first
            for q, v in self.outcomes(hit.test, p):
                yield from self.outcomes(_replace(e, hit, hit.body if v else hit.orelse), q)
            return
        f = self.fold(e)
        if f is None and isinstance(e, ast.Compare) and len(e.ops) == 1 and isinstance(e.ops[0], (ast.Is, ast.IsNot)) \
                and isinstance(e.left, ast.Name) and (e.left.id in p.notnone or (e.left.id in self.module_objects and e.left.id not in p.env)) \
                and isinstance(e.comparators[0], ast.Constant) and e.comparators[0].value is None:
            f = isinstance(e.ops[0], ast.IsNot)
        if f is not None:
            yield p, f
            return
        a, pol = self.atom(e)
        known = p.truth(a)
        if known is None:
            known = self.implied(a, p)
        if known is not None:
            yield p, (known == pol)
            return
        for v in (True, False):
            q = p.fork()
            q.cond.append((a, v, e))
            yield q, (v == pol)

    @staticmethod
    def implied(a, p):
        """cheap implications between atoms of one path"""
        conds = p.conds()
        if a.startswith("truthy "):
            x = a[len("truthy "):]
            if conds.get(f"{x} is None") is True:
                return False
        if " == " in a:
            l, r = a.split(" == ", 1)
            for b, v in conds.items():
                if v and b.startswith(l + " == ") and b != a:
                    r2 = b[len(l) + 4:]
                    if _is_literal(r) and _is_literal(r2):
                        return False
            if conds.get(f"{l} is None") is True and _is_literal(r) and r != "None":
                return False
        if a.endswith(" is None"):
            x = a[: -len(" is None")]
            if conds.get(f"truthy {x}") is True:
                return False
            for b, v in conds.items():
                if v and b.startswith(x + " == ") and _is_literal(b[len(x) + 4:]) and b[len(x) + 4:] != "None":
                    return False
                if v and b.startswith(x + " is ") and b != a and b[len(x) + 4:][:1].isupper():
                    return False  # identical to a named class/constant: not None
        return None

    # ------------------------------------------------------------------- statements
    def run(self, stmts, p=None, env=None):
        """all paths through the statement list"""
        if p is None:
            p = Path()
            if env:
                p.env.update(env)
        done, live = [], [p]
        for st in stmts:
            nxt = []
            for q in live:
                for r in self.step(st, q):
                    if r.end is None:
                        nxt.append(r)
                    else:
                        done.append(r)
            live = nxt
            if len(live) + len(done) > self.max_paths:
                raise AnalysisError(f"path summariser: more than {self.max_paths} paths in {self.fn.name}")
        for q in live:
            q.end = None
        return done, live

    def paths(self, stmts=None, env=None):
        done, live = self.run(self.fn.body if stmts is None else stmts, env=env)
        for q in live:
            q.end = "fall"
        return done + live

    def bind(self, target, value, p, node):
        """value: expanded expression or None (unknown)"""
        if isinstance(target, ast.Name):
            if value is not None and target.id in self.kwdicts and isinstance(value, ast.Dict) \
                    and all(k is not None and isinstance(k, ast.Constant) and isinstance(k.value, str) for k in value.keys):
                p.env[target.id] = value  # a keyword bundle: a value, spelled out at the call
                return
            if value is not None and _mutable_display(value):
                # a fresh mutable container: the name denotes an object with identity, never substitute it
                p.env[target.id] = None
                p.effects.append(("assign", ast.Assign(targets=[ast.Name(id=target.id, ctx=ast.Store())], value=value, lineno=0), node))
            elif value is not None and not self.is_effectful(value):
                # `value` is already expanded: a mention of the target itself denotes the target's previous value
                p.env[target.id] = value
                p.notnone.discard(target.id)
            else:
                p.env[target.id] = None
                p.notnone.discard(target.id)
                if value is not None and isinstance(value, ast.Call) and norm(value.func) in CONSTRUCTORS:
                    p.notnone.add(target.id)
                if value is not None and self.is_effectful(value):
                    p.effects.append(("bind", ast.Assign(targets=[ast.Name(id=target.id, ctx=ast.Store())], value=value, lineno=0), node))
                elif value is not None:
                    # self-referential update (x = x + 1): the binding becomes opaque
                    p.effects.append(("update", ast.Assign(targets=[ast.Name(id=target.id, ctx=ast.Store())], value=value, lineno=0), node))
            # anything that was expanded through the old binding keeps its old expansion (values are immutable texts)
            return
        if isinstance(target, (ast.Tuple, ast.List)):
            if isinstance(value, (ast.Tuple, ast.List)) and len(value.elts) == len(target.elts) \
                    and not any(isinstance(x, ast.Starred) for x in list(value.elts) + list(target.elts)):
                for t, v in zip(target.elts, value.elts):
                    self.bind(t, v, p, node)
                return
            if value is not None and self.is_effectful(value):
                p.effects.append(("bind", ast.Assign(targets=[clone(target)], value=value, lineno=0), node))
            for i, t in enumerate(target.elts):
                if isinstance(t, ast.Starred):
                    self.bind(t.value, None, p, node)
                elif value is not None and not self.is_effectful(value) and not any(isinstance(x, ast.Starred) for x in target.elts):
                    self.bind(t, ast.Subscript(value=value, slice=ast.Constant(value=i), ctx=ast.Load()), p, node)
                else:
                    self.bind(t, None, p, node)
            return
        if isinstance(target, ast.Subscript) and isinstance(target.value, ast.Name) and target.value.id in self.kwdicts \
                and isinstance(p.env.get(target.value.id), ast.Dict) and isinstance(target.slice, ast.Constant):
            old = p.env[target.value.id]
            pairs = [(k, v) for k, v in zip(old.keys, old.values) if k.value != target.slice.value]
            new = ast.Dict(keys=[clone(k) for k, _ in pairs] + [ast.Constant(value=target.slice.value)],
                           values=[clone(v) for _, v in pairs] + [value if value is not None else ast.Constant(value=...)])
            ast.fix_missing_locations(new)
            p.env[target.value.id] = new
            return
        if isinstance(target, (ast.Subscript, ast.Attribute)):
            tgt = self.expand(target, p)
            p.effects.append(("store", ast.Assign(targets=[tgt], value=value if value is not None else ast.Constant(value=...), lineno=0), node))
            return
        raise AnalysisError(f"path summariser: unmodelled assignment target `{norm(target)}`")

    def fork_value(self, e, p):
        """paths x expanded value: conditional expressions anywhere in the value (outside lambdas and comprehensions) fork
        the path, so `x = a if c else b`, an if/else statement and a conditional nested in a call argument or an f-string
        all summarise alike"""
        yield from self.fork_value_expanded(self.expand(e, p), p)

    def fork_value_expanded(self, e, p):
        hit = _first_ifexp(e)
        if hit is None:
            yield p, e
            return
        for q, v in self.outcomes(hit.test, p):
            arm = hit.body if v else hit.orelse
            yield from self.fork_value_expanded(_replace(e, hit, arm), q)

    def step(self, st, p):
        if isinstance(st, (ast.Pass, ast.Import, ast.ImportFrom, ast.Global, ast.Nonlocal)):
            return [p]
        if isinstance(st, (ast.FunctionDef, ast.AsyncFunctionDef, ast.ClassDef)):
            p.env[st.name] = None
            return [p]
        if isinstance(st, ast.Expr):
            v = st.value
            if isinstance(v, ast.Constant):
                return [p]
            if isinstance(v, ast.Yield):
                out = []
                for q, e in (self.fork_value(v.value, p.fork()) if v.value is not None else [(p, None)]):
                    q.effects.append(("yield", e, st))
                    out.append(q)
                return out
            if isinstance(v, ast.YieldFrom):
                p.effects.append(("yieldfrom", self.expand(v.value, p), st))
                return [p]
            out = []
            for q, e in self.fork_value(v, p.fork()):
                q.effects.append(("call", e, st))
                out.append(q)
            return out
        if isinstance(st, ast.Assign):
            v = st.value
            if isinstance(v, ast.Yield):
                p.effects.append(("yield", self.expand(v.value, p) if v.value is not None else None, st))
                for t in st.targets:
                    self.bind(t, None, p, st)
                return [p]
            if isinstance(v, ast.YieldFrom):
                # the value of the delegated generator is a symbol numbered by its position among the path's delegations
                n = sum(1 for k, _e, _n in p.effects if k == "yieldfrom")
                p.effects.append(("yieldfrom", self.expand(v.value, p), st))
                sym = ast.Name(id=f"_yf{n}", ctx=ast.Load())
                for t in st.targets:
                    self.bind(t, sym, p, st)
                return [p]
            out = []
            for q, e in self.fork_value(v, p.fork()):
                for t in st.targets:
                    self.bind(t, e, q, st)
                out.append(q)
            return out
        if isinstance(st, ast.AnnAssign):
            if st.value is None:
                return [p]
            out = []
            for q, e in self.fork_value(st.value, p.fork()):
                self.bind(st.target, e, q, st)
                out.append(q)
            return out
        if isinstance(st, ast.AugAssign):
            if isinstance(st.target, ast.Name):
                cur = p.env.get(st.target.id) or ast.Name(id=st.target.id, ctx=ast.Load())
                val = self.expand(st.value, p)
                if not self.is_effectful(val):
                    p.env[st.target.id] = ast.BinOp(left=cur, op=st.op, right=val)
                    ast.fix_missing_locations(p.env[st.target.id])
                else:
                    p.env[st.target.id] = None
                    p.effects.append(("update", ast.AugAssign(target=ast.Name(id=st.target.id, ctx=ast.Store()), op=st.op, value=val), st))
                return [p]
            p.effects.append(("store", ast.AugAssign(target=self.expand(st.target, p), op=st.op, value=self.expand(st.value, p)), st))
            return [p]
        if isinstance(st, ast.Return):
            out = []
            if st.value is None:
                p.end, p.value, p.node = "return", None, st
                return [p]
            if isinstance(st.value, ast.YieldFrom):
                p.effects.append(("yieldfrom", self.expand(st.value.value, p), st))
                p.end, p.value, p.node = "return", ast.Name(id="<value of the delegated generator>", ctx=ast.Load()), st
                return [p]
            for q, e in self.fork_value(st.value, p.fork()):
                if self.predicate and isinstance(e, (ast.BoolOp, ast.Compare, ast.UnaryOp, ast.Call)) and not (
                        isinstance(e, ast.UnaryOp) and not isinstance(e.op, ast.Not)):
                    for q2, v in self.outcomes(e, q.fork()):
                        q2.end, q2.value, q2.node = "return", ast.Constant(value=bool(v)), st
                        out.append(q2)
                    continue
                q.end, q.value, q.node = "return", e, st
                out.append(q)
            return out
        if isinstance(st, ast.Raise):
            p.end, p.value, p.node = "raise", self.expand(st.exc, p) if st.exc is not None else None, st
            return [p]
        if isinstance(st, ast.Continue):
            p.end, p.node = "continue", st
            return [p]
        if isinstance(st, ast.Break):
            p.end, p.node = "break", st
            return [p]
        if isinstance(st, ast.Assert):
            out = []
            for q, v in self.outcomes(self.expand(st.test, p), p.fork()):
                if v:
                    out.append(q)
                else:
                    q.end, q.value, q.node = "raise", ast.Name(id="AssertionError", ctx=ast.Load()), st
                    out.append(q)
            return out
        if isinstance(st, ast.If):
            out = []
            for q, v in self.outcomes(self.expand(st.test, p), p.fork()):
                done, live = self.run(st.body if v else st.orelse, q)
                out.extend(done)
                out.extend(live)
            return out
        if isinstance(st, (ast.For, ast.AsyncFor)):
            it = self.expand(st.iter, p)
            # the body is summarised on its own; after the loop everything it writes is unknown
            body = Summariser(self.mod, self.fn, self.impure, self.pure, self.list_vars, self.max_paths)
            benv = {k: v for k, v in p.env.items() if k not in _written(st)}
            for n in ast.walk(st.target):
                if isinstance(n, ast.Name):
                    benv[n.id] = None
            sub = body.paths(st.body, env=benv)
            p.effects.append(("loop", it, st))
            p.loops[id(st)] = sub
            for w in _written(st):
                p.env[w] = None
                p.notnone.discard(w)
            outs = [p]
            # a return / raise inside the loop ends the function on that path
            for s in sub:
                if s.end in ("return", "raise"):
                    q = p.fork()
                    q.cond.append((f"loop@{st.lineno} reaches L{s.node.lineno}", True, st))
                    q.cond.extend(s.cond)
                    q.effects.extend(s.effects)
                    q.end, q.value, q.node = s.end, s.value, s.node
                    outs.append(q)
            if st.orelse:
                res = []
                for q in outs:
                    if q.end is None:
                        d, l = self.run(st.orelse, q)
                        res.extend(d + l)
                    else:
                        res.append(q)
                outs = res
            return outs
        if isinstance(st, ast.While):
            body = Summariser(self.mod, self.fn, self.impure, self.pure, self.list_vars, self.max_paths)
            benv = {k: v for k, v in p.env.items() if k not in _written(st)}
            sub = body.paths([ast.If(test=st.test, body=st.body, orelse=[ast.Break()])], env=benv)
            p.effects.append(("loop", self.expand(st.test, p), st))
            p.loops[id(st)] = sub
            for w in _written(st):
                p.env[w] = None
                p.notnone.discard(w)
            outs = [p]
            for s in sub:
                if s.end in ("return", "raise"):
                    q = p.fork()
                    q.cond.append((f"loop@{st.lineno} reaches L{s.node.lineno}", True, st))
                    q.cond.extend(s.cond)
                    q.effects.extend(s.effects)
                    q.end, q.value, q.node = s.end, s.value, s.node
                    outs.append(q)
            return outs
        if isinstance(st, ast.Try):
            out = []
            done, live = self.run(st.body, p.fork())
            normal = []
            for q in done:
                if q.end == "raise" and st.handlers:
                    # a raise inside the protected block may be caught: keep it as raised (handlers are entered below)
                    pass
                out.append(q)
            for q in live:
                if st.orelse:
                    d, l = self.run(st.orelse, q)
                    out.extend(d)
                    normal.extend(l)
                else:
                    normal.append(q)
            for h in st.handlers:
                q = p.fork()
                for w in _unsure_after_raise(st.body, norm(h.type) if h.type is not None else None):
                    q.env[w] = None
                q.cond.append((f"try@{st.lineno} raises {norm(h.type) if h.type is not None else 'BaseException'}", True, h))
                q.effects.append(("try-body", None, st))
                if h.name:
                    q.env[h.name] = None
                d, l = self.run(h.body, q)
                out.extend(d)
                normal.extend(l)
            if st.finalbody:
                res = []
                for q in normal:
                    d, l = self.run(st.finalbody, q)
                    res.extend(d + l)
                normal = res
            return out + normal
        if isinstance(st, (ast.With, ast.AsyncWith)):
            for item in st.items:
                p.effects.append(("with", self.expand(item.context_expr, p), st))
                if item.optional_vars is not None:
                    self.bind(item.optional_vars, None, p, st)
            done, live = self.run(st.body, p)
            return done + live
        if isinstance(st, ast.Delete):
            for t in st.targets:
                if isinstance(t, ast.Name):
                    p.env[t.id] = None
                else:
                    p.effects.append(("store", ast.Delete(targets=[self.expand(t, p)]), st))
            return [p]
        raise AnalysisError(f"path summariser: unmodelled statement `{norm(st).splitlines()[0][:60]}` in {self.fn.name}")


def _may_raise(st, htype):
    """can executing `st` raise an exception the handler type `htype` catches?  Only ValueError is treated specially: it
    comes from calls, raise statements, suspended generators and unpacking of non-displays - never from reading a name, an
    attribute or an item."""
    if htype != "ValueError":
        return not (isinstance(st, (ast.Assign, ast.Pass)) and all(isinstance(n, (ast.Name, ast.Constant, ast.Assign, ast.Tuple,
                    ast.Load, ast.Store)) for n in ast.walk(st)))
    for n in ast.walk(st):
        if isinstance(n, (ast.Call, ast.Raise, ast.Yield, ast.YieldFrom, ast.Await, ast.With, ast.For, ast.Import, ast.ImportFrom,
                          ast.FunctionDef, ast.ClassDef, ast.Starred, ast.BinOp, ast.FormattedValue)):
            return True
        if isinstance(n, ast.Assign) and any(isinstance(t, (ast.Tuple, ast.List)) and not (
                isinstance(n.value, (ast.Tuple, ast.List)) and len(n.value.elts) == len(t.elts)) for t in n.targets):
            return True
    return False


def _unsure_after_raise(body, htype):
    """names whose binding is unknown when a handler for `htype` is entered: everything the protected block writes up to
    the last statement that can raise; that statement's own plain name targets are bound only after its value was computed
    (so they still have their old binding), and the statements after it have not run"""
    idx = [i for i, st in enumerate(body) if _may_raise(st, htype)]
    if not idx:
        return set()
    k = idx[-1]
    out = set()
    for st in body[:k]:
        out |= _written(ast.Module(body=[st], type_ignores=[]))
    last = body[k]
    simple = isinstance(last, ast.Assign) and all(
        isinstance(t, ast.Name) or (isinstance(t, (ast.Tuple, ast.List)) and all(isinstance(e, ast.Name) for e in t.elts)
                                    and isinstance(last.value, (ast.Tuple, ast.List)) and len(last.value.elts) == len(t.elts))
        for t in last.targets)
    if not simple:
        out |= _written(ast.Module(body=[last], type_ignores=[]))
    return out


def _first_ifexp(e, bound=frozenset()):
    """first conditional expression whose test does not depend on a comprehension / lambda variable in scope"""
    if isinstance(e, ast.IfExp) and not ({n.id for n in ast.walk(e.test) if isinstance(n, ast.Name)} & bound):
        return e
    if isinstance(e, ast.Lambda):
        return None
    if isinstance(e, (ast.ListComp, ast.SetComp, ast.DictComp, ast.GeneratorExp)):
        inner = bound | {n.id for g in e.generators for n in ast.walk(g.target) if isinstance(n, ast.Name)}
        for c in ast.iter_child_nodes(e):
            r = _first_ifexp(c, inner)
            if r is not None:
                return r
        return None
    for c in ast.iter_child_nodes(e):
        r = _first_ifexp(c, bound)
        if r is not None:
            return r
    return None


def _replace(node, old, new):
    """copy of `node` in which the sub-tree `old` (by identity) is replaced by a copy of `new`"""
    if node is old:
        return clone(new)
    if isinstance(node, list):
        return [_replace(x, old, new) for x in node]
    if not isinstance(node, ast.AST):
        return node
    out = node.__class__.__new__(node.__class__)
    for f in node._fields:
        try:
            setattr(out, f, _replace(getattr(node, f), old, new))
        except AttributeError:
            pass
    for a in ("lineno", "col_offset", "end_lineno", "end_col_offset"):
        if hasattr(node, a):
            setattr(out, a, getattr(node, a))
    return out


def _is_literal(t):
    try:
        ast.literal_eval(t)
        return True
    except Exception:
        import re
        # named constants: Enum members (TPM_ST.SESSIONS) and ALL_CAPS module constants
        return bool(re.fullmatch(r"[A-Z][A-Za-z0-9_]*(\.[A-Za-z0-9_]+)+|[A-Z][A-Z0-9_]+", t or ""))


def _mutable_display(e):
    if isinstance(e, (ast.List, ast.Dict, ast.Set, ast.ListComp, ast.DictComp, ast.SetComp)):
        return True
    return isinstance(e, ast.Call) and norm(e.func) in ("list", "dict", "set", "bytearray", "defaultdict", "deque") + IDENTITY_CLASSES


def _mentions(e, name):
    return any(isinstance(n, ast.Name) and n.id == name for n in ast.walk(e))


def _written(node):
    out = set()
    for n in ast.walk(node):
        if isinstance(n, ast.Name) and isinstance(n.ctx, (ast.Store, ast.Del)):
            out.add(n.id)
        elif isinstance(n, ast.ExceptHandler) and n.name:
            out.add(n.name)
    return out


def summarise(mod, fn, stmts=None, env=None, **kw):
    return Summariser(mod, fn, **kw).paths(stmts, env=env)


# ------------------------------------------------------------------------------ decision lists
def decide(rules, default, path, implies=()):
    """Three-valued evaluation of an ordered decision list over a path's (partial) atom assignment.
    rules: [(condition, outcome)] with condition a dict atom -> required truth (all must hold).
    implies: [((atom, value), (atom, value))] known implications; completions contradicting one are ignored.
    Returns the set of outcomes over all completions of the atoms the path left undecided."""
    conds = path.conds()
    unknown = sorted({a for c, _ in rules for a in c if a not in conds})
    outs = set()
    for mask in range(1 << len(unknown)):
        full = dict(conds)
        for i, a in enumerate(unknown):
            full[a] = bool(mask >> i & 1)
        if any(full.get(a) == v and full.get(b) is not None and full.get(b) != w for (a, v), (b, w) in implies):
            continue  # a completion that contradicts a known implication between atoms
        for c, o in rules:
            if all(full.get(a) == v for a, v in c.items()):
                outs.add(o)
                break
        else:
            outs.add(default)
    return outs


def resolve(S, path, src):
    """a source-level test seen from the end of `path`: ('const', bool) when it folds under the path's bindings, else
    ('atom', text, polarity)"""
    e = S.expand(ast.parse(src, mode="eval").body, path)
    f = S.fold(e)
    if f is not None:
        return ("const", f)
    a, pol = S.atom(e)
    return ("atom", a, pol)


def decide_src(S, path, rules, default, implies=()):
    """decide() with conditions written as source text over the function's own names ({test source: required truth});
    tests that fold under the path's bindings are evaluated, the others become the path's canonical atoms"""
    out = []
    for cond, outcome in rules:
        c, possible = {}, True
        for src, want in cond.items():
            r = resolve(S, path, src)
            if r[0] == "const":
                if r[1] != want:
                    possible = False
            else:
                need = (want == r[2])
                if c.get(r[1], need) != need:
                    possible = False
                c[r[1]] = need
        if possible:
            out.append((c, outcome))
    return decide(out, default, path, implies)


def truth_src(S, path, src):
    r = resolve(S, path, src)
    if r[0] == "const":
        return r[1]
    t = path.truth(r[1])
    return None if t is None else (t == r[2])


def expand_src(S, path, src):
    """canonical text of a source-level expression under the path's bindings"""
    return text(S.expand(ast.parse(src, mode="eval").body, path))
