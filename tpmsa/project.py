"""Source index of /repo (never imports or runs tpmstream).

Project: all src/tpmstream/**/*.py parsed once with `ast`; module-name <-> file mapping,
import resolution through the repo's own package tree, function / class lookup, parent links.
"""
from __future__ import annotations

import ast
import hashlib
import os
import symtable


class AnalysisError(Exception):
    """The analyser cannot decide (anchor vanished, floor missed, model guard failed).

    Converted to exit code 2 by the launcher - never a verdict about the code."""


PKG = "tpmstream"


class Module:
    def __init__(self, name, path, relpath, source, is_pkg):
        self.name = name
        self.path = path
        self.relpath = relpath  # relative to repo root, for reports
        self.source = source
        self.is_pkg = is_pkg
        self.tree = ast.parse(source, filename=path)
        if name in CANONICALISE:
            canonicalise_locals(self.tree)
        self.normal_log = {}
        # names this module takes from other modules: imported names and attribute names (plain local identifiers of
        # another module say nothing about this one)
        self.identifiers = {n.attr for n in ast.walk(self.tree) if isinstance(n, ast.Attribute)} | \
            {a.name for n in ast.walk(self.tree) if isinstance(n, ast.ImportFrom) for a in n.names}
        self._symtable = None
        self._funcs = None

    def finish(self, used_elsewhere=frozenset()):
        """normal form (see normalise.py) and parent links; `used_elsewhere`: identifiers other modules mention"""
        if os.environ.get("TPMSA_NO_NORMALISE") != "1":
            from . import normalise
            try:
                self.normal_log = normalise.normalise(self.tree, self.name, keep=used_elsewhere)
            except RecursionError as e:  # pragma: no cover
                raise AnalysisError(f"normaliser failed on {self.relpath}: {e}")
            if self.name in CANONICALISE and any(self.normal_log.values()):
                canonicalise_locals(self.tree)
        for node in ast.walk(self.tree):
            for child in ast.iter_child_nodes(node):
                child._parent = node
        self.tree._parent = None
        # program order of the (normalised) tree: inlined nodes keep the line numbers of the helper they came from, so
        # line numbers are for reports only - rules that need "textually before" use `_order`
        counter = 0
        stack = [self.tree]
        while stack:
            n = stack.pop()
            n._order = counter
            counter += 1
            stack.extend(reversed(list(ast.iter_child_nodes(n))))
        self._funcs = None

    @property
    def package(self):
        return self.name if self.is_pkg else self.name.rpartition(".")[0]

    def symtable(self):
        if self._symtable is None:
            self._symtable = symtable.symtable(self.source, self.path, "exec")
        return self._symtable

    # ------------------------------------------------------------------ functions
    def functions(self):
        """dict qualname -> FunctionDef (module-level functions, methods, nested functions)."""
        if self._funcs is None:
            out = {}

            def visit(node, prefix):
                for child in ast.iter_child_nodes(node):
                    if isinstance(child, (ast.FunctionDef, ast.AsyncFunctionDef)):
                        q = prefix + child.name
                        out[q] = child
                        visit(child, q + ".")
                    elif isinstance(child, ast.ClassDef):
                        visit(child, prefix + child.name + ".")
                    elif isinstance(child, (ast.If, ast.Try, ast.With, ast.For, ast.While)):
                        visit(child, prefix)

            visit(self.tree, "")
            self._funcs = out
        return self._funcs

    def function(self, qualname):
        f = self.functions().get(qualname)
        if f is None:
            raise AnalysisError(f"anchor vanished: function {qualname} not found in {self.relpath}")
        return f

    def classes(self):
        return {n.name: n for n in self.tree.body if isinstance(n, ast.ClassDef)}

    def resolve_relative(self, level, modname):
        """Absolute module name for `from <level dots><modname> import ...`."""
        if level == 0:
            return modname
        base = self.package.split(".")
        if level > 1:
            base = base[: len(base) - (level - 1)]
        return ".".join(base + ([modname] if modname else []))

    def import_bindings(self):
        """name -> ('module', modname) | ('attr', modname, attr) for top-level imports."""
        out = {}
        for node in ast.walk(self.tree):
            if isinstance(node, ast.Import):
                for a in node.names:
                    if a.asname:
                        out[a.asname] = ("module", a.name)
                    else:
                        out[a.name.split(".")[0]] = ("module", a.name.split(".")[0])
            elif isinstance(node, ast.ImportFrom):
                mod = self.resolve_relative(node.level, node.module or "")
                for a in node.names:
                    out[a.asname or a.name] = ("attr", mod, a.name)
        return out


def canonicalise_locals(tree):
    """Alpha-normalisation of role-bearing locals in the decode core, so that rules never depend on
    how a maintainer named a local.  Roles (per function):
      values     the dict that is built up and splatted into the object (`X = {}` ... `T(**X)`)
      field      the target of `for X in fields(...)`
      selection  a local bound from a dict comprehension
      types_map  a local bound from `<T>._type_maps[...]`
      size_field, buffer_field   the 2-tuple unpacked from `fields(...)`
      error      the name bound by an `except ... as X` clause
    A role is only renamed when its canonical name is free in that function."""
    for fn in [n for n in ast.walk(tree) if isinstance(n, (ast.FunctionDef, ast.AsyncFunctionDef))]:
        names = {n.id for n in ast.walk(fn) if isinstance(n, ast.Name)} | {a.arg for a in ast.walk(fn) if isinstance(a, ast.arg)}
        mapping = {}

        def want(old, new):
            if old != new and new not in names and old not in mapping and new not in mapping.values():
                mapping[old] = new

        # the dict that is splatted into the object constructor `tpm_type(**X)`
        splat = {k.value.id for c in ast.walk(fn) if isinstance(c, ast.Call) and isinstance(c.func, ast.Name) and c.func.id == "tpm_type"
                 for k in c.keywords if k.arg is None and isinstance(k.value, ast.Name)}
        for n in ast.walk(fn):
            if isinstance(n, ast.Assign) and len(n.targets) == 1:
                t, v = n.targets[0], n.value
                if isinstance(t, ast.Name):
                    if isinstance(v, ast.Dict) and not v.keys and t.id in splat:
                        want(t.id, "values")
                    elif isinstance(v, ast.DictComp):
                        want(t.id, "selection")
                    elif isinstance(v, ast.Subscript) and isinstance(v.value, ast.Attribute) and v.value.attr == "_type_maps":
                        want(t.id, "types_map")
                    elif isinstance(v, ast.Call) and isinstance(v.func, ast.Name) and v.func.id == "next" and v.args \
                            and isinstance(v.args[0], ast.GeneratorExp) and isinstance(v.args[0].generators[0].iter, ast.Call) \
                            and isinstance(v.args[0].generators[0].iter.func, ast.Name) and v.args[0].generators[0].iter.func.id == "fields" \
                            and isinstance(v.args[0].elt, ast.Name):
                        want(t.id, "field")
                elif isinstance(t, ast.Tuple) and len(t.elts) == 2 and all(isinstance(e, ast.Name) for e in t.elts) \
                        and isinstance(v, ast.Call) and isinstance(v.func, ast.Name) and v.func.id == "fields":
                    want(t.elts[0].id, "size_field")
                    want(t.elts[1].id, "buffer_field")
            elif isinstance(n, ast.For) and isinstance(n.target, ast.Name) and isinstance(n.iter, ast.Call) \
                    and isinstance(n.iter.func, ast.Name) and n.iter.func.id == "fields":
                want(n.target.id, "field")
        handlers = [h for h in ast.walk(fn) if isinstance(h, ast.ExceptHandler) and h.name]
        if handlers and len({h.name for h in handlers}) == 1:
            want(handlers[0].name, "error")
        if not mapping:
            continue
        for n in ast.walk(fn):
            if isinstance(n, ast.Name) and n.id in mapping:
                n.id = mapping[n.id]
            elif isinstance(n, ast.ExceptHandler) and n.name in mapping:
                n.name = mapping[n.name]
    return tree


CANONICALISE = ("tpmstream.io.binary.marshal",)


class Project:
    def __init__(self, root=None):
        self.root = root or os.environ.get("VERIF_REPO", "/repo")
        self.src = os.path.join(self.root, "src")
        self.modules: dict[str, Module] = {}
        base = os.path.join(self.src, PKG)
        if not os.path.isdir(base):
            raise AnalysisError(f"source tree not found: {base}")
        for dirpath, dirnames, filenames in os.walk(base):
            dirnames[:] = sorted(d for d in dirnames if d != "__pycache__")
            for fn in sorted(filenames):
                if not fn.endswith(".py"):
                    continue
                path = os.path.join(dirpath, fn)
                rel = os.path.relpath(path, self.src)
                parts = rel[:-3].split(os.sep)
                is_pkg = parts[-1] == "__init__"
                if is_pkg:
                    parts = parts[:-1]
                name = ".".join(parts)
                with open(path, encoding="utf-8") as fh:
                    source = fh.read()
                try:
                    self.modules[name] = Module(
                        name, path, os.path.relpath(path, self.root), source, is_pkg
                    )
                except SyntaxError as e:
                    raise AnalysisError(f"cannot parse {path}: {e}")
        self.member_log = {}
        if os.environ.get("TPMSA_NO_NORMALISE") != "1":
            from . import normalise
            self.member_log = normalise.inline_new_members({n: m.tree for n, m in self.modules.items()}, normalise.load_shape())
        # what a module takes from other modules is what it *uses* after the cross-module expansion above: attribute names and
        # the imported names it actually loads (an import left over for a helper that was expanded in place keeps nothing alive)
        for m in self.modules.values():
            imported = {(a.asname or a.name) for n in ast.walk(m.tree) if isinstance(n, ast.ImportFrom) for a in n.names}
            loaded = {n.id for n in ast.walk(m.tree) if isinstance(n, ast.Name) and isinstance(n.ctx, ast.Load)}
            strings = {n.value for n in ast.walk(m.tree) if isinstance(n, ast.Constant) and isinstance(n.value, str) and n.value.isidentifier()}
            is_init = m.relpath.endswith("__init__.py")
            m.identifiers = {n.attr for n in ast.walk(m.tree) if isinstance(n, ast.Attribute)} | \
                (imported if is_init else (imported & (loaded | strings)))   # (a package __init__ re-exports what it imports)
        for name, m in self.modules.items():
            others = set()
            for n2, m2 in self.modules.items():
                if n2 != name:
                    others |= m2.identifiers
            m.finish(frozenset(others))

    def module(self, name) -> Module:
        m = self.modules.get(name)
        if m is None:
            raise AnalysisError(f"anchor vanished: module {name} not found")
        return m

    def has_module(self, name):
        return name in self.modules

    def digest(self, names=None):
        h = hashlib.sha256()
        for n in sorted(names or self.modules):
            h.update(n.encode())
            h.update(self.modules[n].source.encode())
        return h.hexdigest()[:16]

    def resolve_name(self, module: Module, name: str, _depth=0):
        """Follow import bindings: returns (Module, attrname) of the defining module, or None
        if the name is external / not resolvable."""
        if _depth > 10:
            return None
        b = module.import_bindings().get(name)
        if b is None:
            # defined locally?
            for node in module.tree.body:
                if isinstance(node, (ast.FunctionDef, ast.ClassDef)) and node.name == name:
                    return (module, name)
                if isinstance(node, ast.Assign):
                    for t in node.targets:
                        if isinstance(t, ast.Name) and t.id == name:
                            return (module, name)
            return None
        if b[0] == "module":
            return (self.modules[b[1]], None) if b[1] in self.modules else None
        _, modname, attr = b
        sub = modname + "." + attr
        if sub in self.modules:
            return (self.modules[sub], None)
        if modname not in self.modules:
            return None
        return self.resolve_name(self.modules[modname], attr, _depth + 1) or None


# ----------------------------------------------------------------------------- ast helpers
def parent(node):
    return getattr(node, "_parent", None)


def enclosing_function(node):
    p = parent(node)
    while p is not None and not isinstance(p, (ast.FunctionDef, ast.AsyncFunctionDef, ast.Lambda)):
        p = parent(p)
    return p


def enclosing_stmt(node):
    while node is not None and not isinstance(node, ast.stmt):
        node = parent(node)
    return node


def qualname_of(node):
    """Qualified name of the innermost enclosing def/class chain of a node."""
    names = []
    p = node if isinstance(node, (ast.FunctionDef, ast.ClassDef)) else parent(node)
    while p is not None:
        if isinstance(p, (ast.FunctionDef, ast.AsyncFunctionDef, ast.ClassDef)):
            names.append(p.name)
        p = parent(p)
    return ".".join(reversed(names)) or "<module>"


def order(node):
    """position of a node in program (pre-)order of the normalised tree"""
    return getattr(node, "_order", getattr(node, "lineno", 0))


def norm(node):
    """Normalised text of a construct (formatting-independent)."""
    try:
        return ast.unparse(node)
    except Exception:
        return ast.dump(node)


def short(node, n=100):
    s = norm(node).replace("\n", " ")
    return s if len(s) <= n else s[: n - 3] + "..."


def walk_no_nested(node):
    """Walk a function body without descending into nested function/class/lambda definitions."""
    stack = list(ast.iter_child_nodes(node))
    while stack:
        n = stack.pop()
        yield n
        if isinstance(n, (ast.FunctionDef, ast.AsyncFunctionDef, ast.ClassDef, ast.Lambda)):
            continue
        stack.extend(ast.iter_child_nodes(n))


def names_in(node, ctx=None):
    out = []
    for n in ast.walk(node):
        if isinstance(n, ast.Name) and (ctx is None or isinstance(n.ctx, ctx)):
            out.append(n.id)
    return out


def call_name(call):
    """'f' for f(...), 'a.b.c' for a.b.c(...), None otherwise."""
    return dotted(call.func) if isinstance(call, ast.Call) else None


def dotted(node):
    if isinstance(node, ast.Name):
        return node.id
    if isinstance(node, ast.Attribute):
        b = dotted(node.value)
        return None if b is None else b + "." + node.attr
    return None


def kwarg(call, name):
    for k in call.keywords:
        if k.arg == name:
            return k.value
    return None


def is_const(node, value):
    return isinstance(node, ast.Constant) and node.value == value and type(node.value) is type(value)
