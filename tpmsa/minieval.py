"""Evaluation of small table-manipulating functions of the repository on table data from L.

Some helpers the decoder relies on (TPMS_PARAMS.encrypted, is_list, is_encrypted_params) are
ordinary Python over dicts of annotations.  Whether they compute the right thing does not depend
on how they are written, so the rules do not look at their text: they fold the function's syntax
tree over every relevant table entry of L (all 234 parameter areas, ...) and compare results.
The domain is finite static data and the interpreter below is ours - nothing of the repository
is imported or run; a construct outside the modelled subset raises AnalysisError (the analyser
cannot decide), never a verdict.

Values: Python ints/strs/bools/None/tuples/lists/dicts (insertion-ordered, as annotations are),
TypeRef (a class of L, or an external class by name) and NewType (a class synthesised by
`type(name, bases, ns)`).
"""
from __future__ import annotations

import ast

from .project import AnalysisError, norm


class TypeRef:
    def __init__(self, name, annotations=None, attrs=None, bases=()):
        self.name = name
        self.annotations = annotations  # ordered dict name -> TypeRef, or None when the class declares none
        self.attrs = dict(attrs or {})
        self.bases = tuple(bases)

    def __repr__(self):
        return f"<{self.name}>"


class NewType:
    def __init__(self, name, bases, ns):
        self.name, self.bases = name, tuple(bases)
        self.attrs = dict(ns)
        self.decorated = []

    def __repr__(self):
        return f"<new {self.name} {self.attrs.get('__annotations__')}>"


class ListAlias:
    """list[T]"""

    def __init__(self, elem):
        self.elem = elem

    def __repr__(self):
        return f"list[{self.elem!r}]"


class GenResult:
    """what a stubbed sub-generator hands to `yield from`: the items it yields and its return value"""

    def __init__(self, value, yields=()):
        self.value, self.yields = value, list(yields)


class _Return(Exception):
    def __init__(self, value):
        self.value = value


class Imprecise(AnalysisError):
    """the evaluated code renders the unknown value in a way that depends on its magnitude (e.g. a binary text padded to
    fewer digits than the value has bits): there is no single result for all values"""


class NeedBit(Exception):
    """evaluation cannot go on without knowing bit `index` of the unknown value: the caller splits on it"""

    def __init__(self, index):
        self.index = index


def _first_unknown(*vecs):
    for v in vecs:
        if isinstance(v, SymVec):
            for b in v.bits:
                if isinstance(b, tuple):
                    return b[1]
    return None


class SymVec:
    """an integer whose bits are not known: bit i is 0, 1 or the symbol ("v", i).  Bitwise operations with known integers
    and shifts by known amounts are exact; anything that would make control flow or arithmetic depend on an unknown bit is
    refused (the analysis then has no answer, which the caller reports as such)."""
    WIDTH = 64

    def __init__(self, bits):
        self.bits = tuple(bits)

    @classmethod
    def unknown(cls, width):
        return cls([("v", i) if i < width else 0 for i in range(cls.WIDTH)])

    @classmethod
    def of(cls, n):
        if n < 0:
            raise AnalysisError("minieval: negative operand of a bit operation on an unknown value")
        return cls([(n >> i) & 1 for i in range(cls.WIDTH)])

    def concrete(self):
        if all(b in (0, 1) for b in self.bits):
            return sum(b << i for i, b in enumerate(self.bits))
        return None

    def __eq__(self, o):
        return isinstance(o, SymVec) and self.bits == o.bits

    def __hash__(self):
        return hash(self.bits)

    def __repr__(self):
        c = self.concrete()
        if c is not None:
            return hex(c)
        return "<" + "".join("1" if b == 1 else "0" if b == 0 else "v" for b in reversed(self.bits)).lstrip("0") + ">"


def _bitop(op, a, b, node):
    A = a if isinstance(a, SymVec) else SymVec.of(a)
    B = b if isinstance(b, SymVec) else SymVec.of(b)
    out = []
    for x, y in zip(A.bits, B.bits):
        if isinstance(op, ast.BitAnd):
            r = 0 if (x == 0 or y == 0) else y if x == 1 else x if y == 1 else (x if x == y else None)
        elif isinstance(op, ast.BitOr):
            r = 1 if (x == 1 or y == 1) else y if x == 0 else x if y == 0 else (x if x == y else None)
        else:
            r = y if x == 0 else x if y == 0 else (0 if x == y else None) if (x in (0, 1) and y in (0, 1)) or x == y else None
        if r is None:
            raise AnalysisError(f"minieval: `{norm(node)}` combines two unknown bits")
        out.append(r)
    return SymVec(out)


class SymNeg:
    """-x for a bit pattern x with unknown bits: modelled for the one idiom it occurs in, `x & -x`"""

    def __init__(self, vec):
        self.vec = vec


class SymStr(tuple):
    """a text some of whose characters are not known: items are one-character strings or bit symbols ("v", i) (the binary
    digit of an unknown bit).  Produced by formatting a SymVec in binary with an explicit width."""

    def __repr__(self):
        return "'" + "".join(c if isinstance(c, str) else "v" for c in self) + "'"


class SymBin:
    """`f"{v:b}"` of an unknown integer: its binary digits without leading zeros - how many there are is not known, but
    padded with zeros to at least n digits (`.zfill(n)`) it is the n-digit form whenever v < 2**n"""

    def __init__(self, vec):
        self.vec = vec


def _as_chars(x):
    if isinstance(x, SymStr):
        return list(x)
    if isinstance(x, str):
        return list(x)
    return None


def _mk_text(chars):
    return "".join(chars) if all(isinstance(c, str) for c in chars) else SymStr(chars)


class Raised(Exception):
    """the evaluated function raises"""

    def __init__(self, cls, node):
        self.cls, self.node = cls, node


class _Break(Exception):
    pass


class _Continue(Exception):
    pass


class Interp:
    def __init__(self, globals_=None, max_steps=20000, module_tree=None):
        """module_tree: the functions and constants of the module the evaluated function lives in may be used by it
        (memoisation decorators are identities here; other decorators are not modelled)"""
        self.globals = dict(globals_ or {})
        self.mod_funcs, self.mod_consts = {}, {}
        for st in (module_tree.body if module_tree is not None else ()):
            if isinstance(st, ast.FunctionDef) and all(norm(d.func if isinstance(d, ast.Call) else d).split(".")[-1] in
                                                       ("lru_cache", "cache") for d in st.decorator_list):
                self.mod_funcs[st.name] = st
            elif isinstance(st, ast.Assign) and len(st.targets) == 1 and isinstance(st.targets[0], ast.Name):
                self.mod_consts[st.targets[0].id] = st.value
        self.steps = 0
        self.max_steps = max_steps
        self.yields = []

    # ------------------------------------------------------------------ entry
    def call(self, fn: ast.FunctionDef, args, kwargs=None):
        params = [a.arg for a in fn.args.args]
        env = {}
        defaults = fn.args.defaults
        for p, d in zip(params[len(params) - len(defaults):], defaults):
            env[p] = self.ev(d, {})
        for p, a in zip(params, args):
            env[p] = a
        for k, v in (kwargs or {}).items():
            env[k] = v
        missing = [p for p in params if p not in env]
        if missing:
            raise AnalysisError(f"minieval: missing arguments {missing} for {fn.name}")
        try:
            self.block(fn.body, env)
        except _Return as r:
            return r.value
        return None

    def tick(self, node):
        self.steps += 1
        if self.steps > self.max_steps:
            raise AnalysisError(f"minieval: step limit at line {getattr(node, 'lineno', '?')}")

    # ------------------------------------------------------------------ statements
    def block(self, stmts, env):
        for st in stmts:
            self.stmt(st, env)

    def stmt(self, st, env):
        self.tick(st)
        if isinstance(st, ast.Expr):
            if isinstance(st.value, ast.Constant):
                return
            if isinstance(st.value, ast.Yield):
                # a generator is run to its end; what it yields is collected
                self.yields.append(self.ev(st.value.value, env) if st.value.value is not None else None)
                return
            self.ev(st.value, env)
            return
        if isinstance(st, ast.Pass):
            return
        if isinstance(st, ast.Return):
            raise _Return(self.ev(st.value, env) if st.value is not None else None)
        if isinstance(st, ast.Assign):
            v = self.ev(st.value, env)
            for t in st.targets:
                self.bind(t, v, env)
            return
        if isinstance(st, ast.AnnAssign):
            if st.value is not None:
                self.bind(st.target, self.ev(st.value, env), env)
            return
        if isinstance(st, ast.AugAssign) and isinstance(st.target, ast.Name):
            cur = self.ev(ast.Name(id=st.target.id, ctx=ast.Load()), env)
            env[st.target.id] = self.binop(st.op, cur, self.ev(st.value, env), st)
            return
        if isinstance(st, ast.If):
            self.block(st.body if self.truth(self.ev(st.test, env)) else st.orelse, env)
            return
        if isinstance(st, ast.For):
            broke = False
            for x in self.iterate(self.ev(st.iter, env), st):
                self.bind(st.target, x, env)
                try:
                    self.block(st.body, env)
                except _Break:
                    broke = True
                    break
                except _Continue:
                    continue
            if not broke:
                self.block(st.orelse, env)
            return
        if isinstance(st, ast.While):
            broke = False
            while self.truth(self.ev(st.test, env)):
                self.tick(st)
                try:
                    self.block(st.body, env)
                except _Break:
                    broke = True
                    break
                except _Continue:
                    continue
            if not broke:
                self.block(st.orelse, env)
            return
        if isinstance(st, ast.Break):
            raise _Break()
        if isinstance(st, ast.Continue):
            raise _Continue()
        if isinstance(st, ast.Assert):
            if not self.truth(self.ev(st.test, env)):
                raise Raised("AssertionError", st)
            return
        if isinstance(st, ast.Raise):
            raise Raised(norm(st.exc.func) if isinstance(st.exc, ast.Call) else norm(st.exc) if st.exc is not None else "?", st)
        raise AnalysisError(f"minieval: unmodelled statement `{norm(st).splitlines()[0][:60]}`")

    def bind(self, t, v, env):
        if isinstance(t, ast.Name):
            env[t.id] = v
            return
        if isinstance(t, (ast.Tuple, ast.List)):
            items = list(self.iterate(v, t))
            star = [i for i, e in enumerate(t.elts) if isinstance(e, ast.Starred)]
            if not star:
                if len(items) != len(t.elts):
                    raise Raised("ValueError", t)
                for e, x in zip(t.elts, items):
                    self.bind(e, x, env)
                return
            i = star[0]
            after = len(t.elts) - i - 1
            if len(items) < len(t.elts) - 1:
                raise Raised("ValueError", t)
            for e, x in zip(t.elts[:i], items[:i]):
                self.bind(e, x, env)
            self.bind(t.elts[i].value, list(items[i:len(items) - after]), env)
            for e, x in zip(t.elts[i + 1:], items[len(items) - after:]):
                self.bind(e, x, env)
            return
        if isinstance(t, ast.Attribute):
            obj = self.ev(t.value, env)
            if isinstance(obj, (NewType, TypeRef)):
                obj.attrs[t.attr] = v
                return
        if isinstance(t, ast.Subscript):
            obj = self.ev(t.value, env)
            if isinstance(obj, (dict, list)):
                obj[self.ev(t.slice, env)] = v
                return
        raise AnalysisError(f"minieval: unmodelled assignment target `{norm(t)}`")

    # ------------------------------------------------------------------ expressions
    @staticmethod
    def truth(v):
        if isinstance(v, (TypeRef, NewType, ListAlias)):
            return True
        if isinstance(v, SymVec):
            c = v.concrete()
            if c is None:
                if any(b == 1 for b in v.bits):
                    return True
                raise NeedBit(_first_unknown(v))
            return bool(c)
        return bool(v)

    def iterate(self, v, node):
        if isinstance(v, (list, tuple, str, bytes)):
            return list(v)   # (SymStr is a tuple of characters / digit symbols)
        if isinstance(v, dict):
            return list(v.keys())
        if isinstance(v, _View):
            return v.items
        raise AnalysisError(f"minieval: cannot iterate {type(v).__name__} at line {getattr(node, 'lineno', '?')}")

    def binop(self, op, a, b, node):
        if isinstance(a, SymNeg) or isinstance(b, SymNeg):
            x, n = (a, b) if isinstance(b, SymNeg) else (b, a)
            if isinstance(op, ast.BitAnd) and isinstance(x, SymVec) and x.bits == n.vec.bits:
                # x & -x = the lowest set bit of x: decided by the lowest bit of x that is not known to be 0
                for i, bit in enumerate(x.bits):
                    if bit == 1:
                        return 1 << i
                    if isinstance(bit, tuple):
                        raise NeedBit(bit[1])
                return 0
            raise AnalysisError(f"minieval: `{norm(node)}` negates the unknown value")
        if isinstance(a, TypeRef) and callable(a.attrs.get("__binop__")):
            return a.attrs["__binop__"](type(op).__name__, b)   # (a harness object that defines its own operators)
        if isinstance(a, SymVec) or isinstance(b, SymVec):
            if isinstance(op, (ast.BitAnd, ast.BitOr, ast.BitXor)) and all(isinstance(x, (SymVec, int)) for x in (a, b)):
                r = _bitop(op, a, b, node)
                return r.concrete() if r.concrete() is not None else r
            if isinstance(op, (ast.RShift, ast.LShift)) and isinstance(a, SymVec):
                k = b.concrete() if isinstance(b, SymVec) else b
                if k is None and isinstance(b, SymVec):
                    raise NeedBit(_first_unknown(b))
                if not isinstance(k, int) or isinstance(k, bool) or k < 0:
                    raise AnalysisError(f"minieval: shift amount of `{norm(node)}` depends on the unknown value")
                if isinstance(op, ast.RShift):
                    bits = a.bits[k:] + (0,) * min(k, SymVec.WIDTH)
                else:
                    if any(x != 0 for x in a.bits[SymVec.WIDTH - k:]) if k else False:
                        raise AnalysisError(f"minieval: `{norm(node)}` shifts unknown bits out of the modelled width")
                    bits = (0,) * k + a.bits[:SymVec.WIDTH - k]
                r = SymVec(bits[:SymVec.WIDTH])
                return r.concrete() if r.concrete() is not None else r
            if isinstance(op, (ast.FloorDiv, ast.Mod)) and isinstance(a, SymVec) and isinstance(b, int) and not isinstance(b, bool) \
                    and b > 0 and b & (b - 1) == 0:
                # division of a non-negative bit pattern by a power of two is a right shift, the remainder its low bits
                k = b.bit_length() - 1
                bits = (a.bits[k:] + (0,) * min(k, SymVec.WIDTH)) if isinstance(op, ast.FloorDiv) else (a.bits[:k] + (0,) * (SymVec.WIDTH - k))
                r = SymVec(bits[:SymVec.WIDTH])
                return r.concrete() if r.concrete() is not None else r
            if isinstance(op, (ast.FloorDiv, ast.Mod)) and isinstance(a, SymVec) and b == 0:
                raise Raised("ZeroDivisionError", node)
            raise AnalysisError(f"minieval: `{norm(node)}` computes with the unknown value")
        try:
            if isinstance(op, ast.Add) and (isinstance(a, SymStr) or isinstance(b, SymStr)):
                if _as_chars(a) is None or _as_chars(b) is None:
                    raise Raised("TypeError", node)
                return _mk_text(_as_chars(a) + _as_chars(b))
            if isinstance(op, ast.Mult) and (isinstance(a, SymStr) or isinstance(b, SymStr)):
                t_, k_ = (a, b) if isinstance(a, SymStr) else (b, a)
                if not isinstance(k_, int) or isinstance(k_, bool):
                    raise Raised("TypeError", node)
                return _mk_text(list(t_) * max(k_, 0))
            if isinstance(op, ast.Add):
                return a + b
            if isinstance(op, ast.Sub):
                return a - b
            if isinstance(op, ast.Mult):
                return a * b
            if isinstance(op, ast.BitOr) and isinstance(a, dict) and isinstance(b, dict):
                return {**a, **b}
            if isinstance(a, str) and isinstance(op, ast.Mod) and (isinstance(b, (str, int)) or (
                    isinstance(b, tuple) and all(isinstance(x, (str, int)) or x is None for x in b))):
                return a % b      # printf-style formatting of concrete values
            ints = isinstance(a, int) and isinstance(b, int)
            if ints and isinstance(op, ast.BitAnd):
                return a & b
            if ints and isinstance(op, ast.BitOr):
                return a | b
            if ints and isinstance(op, ast.BitXor):
                return a ^ b
            if ints and isinstance(op, ast.RShift):
                return a >> b
            if ints and isinstance(op, ast.LShift) and 0 <= b <= 256:
                return a << b
            if ints and isinstance(op, ast.FloorDiv):
                return a // b
            if ints and isinstance(op, ast.Mod):
                return a % b
            if ints and isinstance(op, ast.Pow) and 0 <= b <= 256:
                return a ** b
        except TypeError:
            raise Raised("TypeError", node)
        except ZeroDivisionError:
            raise Raised("ZeroDivisionError", node)
        except ValueError:
            raise Raised("ValueError", node)
        raise AnalysisError(f"minieval: unmodelled operator in `{norm(node)}`")

    def attr(self, obj, name, node):
        if isinstance(obj, TypeRef):
            if name == "__name__":
                return obj.name
            if name == "__annotations__":
                if obj.annotations is None:
                    raise Raised("AttributeError", node)
                return obj.annotations
            if name in obj.attrs:
                return obj.attrs[name]
            props = obj.attrs.get("__props__")
            if props and name in props:
                return props[name]()
            if obj.attrs.get("__partial__"):
                # a hand-built stand-in for a run-time object lists the attributes the rules know about, not all the object has:
                # a read of another one is not an AttributeError of the program, it is the end of what this model can say
                raise AnalysisError(f"minieval: the stand-in for {obj.name} models no attribute `{name}` "
                                    f"(read at line {getattr(node, 'lineno', '?')})")
            raise Raised("AttributeError", node)
        if isinstance(obj, NewType):
            if name == "__name__":
                return obj.name
            if name in obj.attrs:
                return obj.attrs[name]
            raise Raised("AttributeError", node)
        if isinstance(obj, ListAlias):
            if name == "__name__":
                return "list"
            if name == "__origin__":
                return self.globals.get("list", TypeRef("list"))
            if name == "__args__":
                return (obj.elem,)
            raise Raised("AttributeError", node)
        if obj is None or isinstance(obj, (int, str, bytes, bool, tuple, list, dict)) and name.startswith("_"):
            raise Raised("AttributeError", node)
        raise AnalysisError(f"minieval: attribute `{name}` of {type(obj).__name__} at line {getattr(node, 'lineno', '?')}")

    def ev(self, e, env):
        self.tick(e)
        if isinstance(e, ast.Constant):
            return e.value
        if isinstance(e, ast.Name):
            if e.id in env:
                return env[e.id]
            if e.id in self.globals:
                return self.globals[e.id]
            if e.id in self.mod_consts:
                self.globals[e.id] = self.ev(self.mod_consts[e.id], {})
                return self.globals[e.id]
            if e.id in ("list", "dict", "tuple", "type", "str", "int", "bytes"):
                return TypeRef(e.id)
            raise AnalysisError(f"minieval: unknown name `{e.id}`")
        if isinstance(e, ast.Tuple):
            return tuple(self.seq(e.elts, env))
        if isinstance(e, ast.List):
            return list(self.seq(e.elts, env))
        if isinstance(e, ast.Dict):
            out = {}
            for k, v in zip(e.keys, e.values):
                if k is None:
                    d = self.ev(v, env)
                    if not isinstance(d, dict):
                        raise Raised("TypeError", e)
                    out.update(d)
                else:
                    out[self.ev(k, env)] = self.ev(v, env)
            return out
        if isinstance(e, ast.Attribute):
            return self.attr(self.ev(e.value, env), e.attr, e)
        if isinstance(e, ast.Subscript):
            b = self.ev(e.value, env)
            if isinstance(e.slice, ast.Slice):
                lo = self.ev(e.slice.lower, env) if e.slice.lower is not None else None
                hi = self.ev(e.slice.upper, env) if e.slice.upper is not None else None
                if isinstance(b, _View):
                    b = b.items
                if isinstance(b, SymStr):
                    return _mk_text(list(b)[lo:hi])
                if isinstance(b, (list, tuple, str, bytes)):
                    return b[lo:hi]
                raise AnalysisError(f"minieval: slice of {type(b).__name__}")
            k = self.ev(e.slice, env)
            if isinstance(b, _View):
                raise Raised("TypeError", e)
            try:
                if isinstance(b, (list, tuple, str, bytes, dict)):
                    return b[k]
            except IndexError:
                raise Raised("IndexError", e)
            except KeyError:
                raise Raised("KeyError", e)
            if isinstance(b, TypeRef) and b.name == "list":
                return ListAlias(k)
            raise AnalysisError(f"minieval: subscript of {type(b).__name__}")
        if isinstance(e, ast.BoolOp):
            v = None
            for x in e.values:
                v = self.ev(x, env)
                if isinstance(e.op, ast.And) and not self.truth(v):
                    return v
                if isinstance(e.op, ast.Or) and self.truth(v):
                    return v
            return v
        if isinstance(e, ast.UnaryOp) and isinstance(e.op, ast.Not):
            return not self.truth(self.ev(e.operand, env))
        if isinstance(e, ast.UnaryOp) and isinstance(e.op, (ast.USub, ast.Invert, ast.UAdd)):
            v = self.ev(e.operand, env)
            if isinstance(v, int) and not isinstance(v, bool):
                return -v if isinstance(e.op, ast.USub) else ~v if isinstance(e.op, ast.Invert) else v
            if isinstance(v, SymVec) and isinstance(e.op, ast.USub):
                return SymNeg(v)   # only meaningful as `x & -x` (the lowest set bit of x)
            raise AnalysisError(f"minieval: `{norm(e)[:60]}` on {type(v).__name__}")
        if isinstance(e, ast.IfExp):
            t = self.ev(e.test, env)
            if isinstance(t, SymVec) and isinstance(e.body, ast.Constant) and isinstance(e.orelse, ast.Constant) \
                    and (e.body.value, e.orelse.value) == ("1", "0"):
                # `"1" if word & (1 << i) else "0"`: the digit of the one unknown bit the test depends on
                unk = [b for b in t.bits if isinstance(b, tuple)]
                if len(unk) == 1 and not any(b == 1 for b in t.bits):
                    return unk[0]
            return self.ev(e.body if self.truth(t) else e.orelse, env)
        if isinstance(e, ast.Compare):
            left = self.ev(e.left, env)
            for op, r in zip(e.ops, e.comparators):
                right = self.ev(r, env)
                if isinstance(op, ast.Is):
                    ok = self.same(left, right)
                elif isinstance(op, ast.IsNot):
                    ok = not self.same(left, right)
                elif isinstance(op, ast.Eq):
                    ok = self.eq(left, right)
                elif isinstance(op, ast.NotEq):
                    ok = not self.eq(left, right)
                elif isinstance(op, ast.In):
                    ok = any(self.eq(left, x) for x in self.iterate(right, e))
                elif isinstance(op, ast.NotIn):
                    ok = not any(self.eq(left, x) for x in self.iterate(right, e))
                elif isinstance(op, (ast.Lt, ast.LtE, ast.Gt, ast.GtE)):
                    l_, r_ = (x.concrete() if isinstance(x, SymVec) else x for x in (left, right))
                    if not all(isinstance(x, int) for x in (l_, r_)):
                        if l_ is None or r_ is None:
                            raise NeedBit(_first_unknown(left, right))
                        raise Raised("TypeError", e)
                    ok = {ast.Lt: l_ < r_, ast.LtE: l_ <= r_, ast.Gt: l_ > r_, ast.GtE: l_ >= r_}[type(op)]
                else:
                    raise AnalysisError(f"minieval: comparison `{norm(e)}`")
                if not ok:
                    return False
                left = right
            return True
        if isinstance(e, ast.BinOp):
            return self.binop(e.op, self.ev(e.left, env), self.ev(e.right, env), e)
        if isinstance(e, (ast.ListComp, ast.GeneratorExp, ast.DictComp)):
            return self.comp(e, env)
        if isinstance(e, ast.Yield):
            # a generator is run to its end with None sent in; what it yields is collected
            self.yields.append(self.ev(e.value, env) if e.value is not None else None)
            return None
        if isinstance(e, ast.YieldFrom):
            g = self.ev(e.value, env)
            if isinstance(g, GenResult):
                self.yields.extend(g.yields)
                return g.value
            raise AnalysisError(f"minieval: `yield from` of {type(g).__name__}")
        if isinstance(e, ast.Starred):
            raise AnalysisError("minieval: starred expression outside a call / display")
        if isinstance(e, ast.Call):
            return self.callexpr(e, env)
        if isinstance(e, ast.JoinedStr):
            return self.fstring(e, env)
        raise AnalysisError(f"minieval: unmodelled expression `{norm(e)[:60]}`")

    def fstring(self, e, env):
        """f-strings over known values are formatted; an unknown integer can be written in binary with an explicit width
        (one symbol per digit); anything else stays an opaque text (as before)"""
        chars = []
        try:
            for part in e.values:
                if isinstance(part, ast.Constant):
                    chars.extend(str(part.value))
                    continue
                v = self.ev(part.value, env)
                spec = ""
                if part.format_spec is not None:
                    sp = self.fstring(part.format_spec, env)
                    if not isinstance(sp, str) or sp == "<text>":
                        return "<text>"
                    spec = sp
                if isinstance(v, SymVec):
                    import re as _re
                    m = _re.fullmatch(r"0(\d+)b", spec)
                    if part.conversion == -1 and spec == "b" and len(e.values) == 1:
                        return SymBin(v)
                    if part.conversion != -1 or m is None:
                        return "<text>"
                    w = int(m.group(1))
                    if any(b != 0 for b in v.bits[w:]):
                        return "<text>"
                    chars.extend(("v", b[1]) if isinstance(b, tuple) else str(b) for b in reversed(v.bits[:w]))
                    continue
                if isinstance(v, SymStr) and not spec and part.conversion == -1:
                    chars.extend(v)
                    continue
                if isinstance(v, (int, str)) and not isinstance(v, bool) and part.conversion == -1:
                    chars.extend(format(v, spec))
                    continue
                return "<text>"
        except (ValueError, TypeError):
            return "<text>"
        return _mk_text(chars)

    def seq(self, elts, env):
        out = []
        for x in elts:
            if isinstance(x, ast.Starred):
                out.extend(self.iterate(self.ev(x.value, env), x))
            else:
                out.append(self.ev(x, env))
        return out

    def comp(self, e, env):
        if len(e.generators) != 1:
            raise AnalysisError("minieval: nested comprehension")
        g = e.generators[0]
        out = {} if isinstance(e, ast.DictComp) else []
        for x in self.iterate(self.ev(g.iter, env), e):
            inner = dict(env)
            self.bind(g.target, x, inner)
            if all(self.truth(self.ev(c, inner)) for c in g.ifs):
                if isinstance(e, ast.DictComp):
                    out[self.ev(e.key, inner)] = self.ev(e.value, inner)
                else:
                    out.append(self.ev(e.elt, inner))
        return out

    @staticmethod
    def same(a, b):
        if a is None or b is None or isinstance(a, bool) or isinstance(b, bool) or a is Ellipsis or b is Ellipsis:
            return a is b
        if isinstance(a, TypeRef) and isinstance(b, TypeRef):
            return a.name == b.name
        return a is b

    def eq(self, a, b):
        for x, y in ((a, b), (b, a)):
            if isinstance(x, tuple) and len(x) == 2 and x[0] == "v" and isinstance(y, str):
                if y in ("0", "1"):
                    raise NeedBit(x[1])
                return False
        if isinstance(a, SymVec) or isinstance(b, SymVec):
            A = a if isinstance(a, SymVec) else SymVec.of(a) if isinstance(a, int) and not isinstance(a, bool) and a >= 0 else None
            B = b if isinstance(b, SymVec) else SymVec.of(b) if isinstance(b, int) and not isinstance(b, bool) and b >= 0 else None
            if A is None or B is None:
                return False
            if any(x in (0, 1) and y in (0, 1) and x != y for x, y in zip(A.bits, B.bits)):
                return False   # they differ in a known bit
            if A.bits == B.bits and A.concrete() is not None:
                return True
            for x, y in zip(A.bits, B.bits):
                if x != y and (isinstance(x, tuple) or isinstance(y, tuple)):
                    raise NeedBit((x if isinstance(x, tuple) else y)[1])
            raise AnalysisError("minieval: an equality test depends on the unknown value")
        if isinstance(a, TypeRef) and isinstance(b, TypeRef):
            return a.name == b.name
        if isinstance(a, (TypeRef, NewType, ListAlias)) or isinstance(b, (TypeRef, NewType, ListAlias)):
            return a is b
        if isinstance(a, _View):
            a = a.items
        if isinstance(b, _View):
            b = b.items
        return a == b

    def callexpr(self, e, env):
        f = e.func
        args = self.seq(e.args, env)
        kwargs = {}
        for k in e.keywords:
            if k.arg is None:
                d = self.ev(k.value, env)
                if not isinstance(d, dict):
                    raise Raised("TypeError", e)
                kwargs.update(d)
            else:
                kwargs[k.arg] = self.ev(k.value, env)
        if isinstance(f, ast.Attribute):
            obj = self.ev(f.value, env)
            m = f.attr
            if isinstance(obj, list) and not kwargs:
                if m == "append" and len(args) == 1:
                    obj.append(args[0])
                    return None
                if m == "extend" and len(args) == 1:
                    obj.extend(self.iterate(args[0], e))
                    return None
                if m == "clear" and not args:
                    obj.clear()
                    return None
                if m == "pop" and len(args) <= 1 and all(isinstance(a_, int) for a_ in args):
                    try:
                        return obj.pop(*args)
                    except IndexError:
                        raise Raised("IndexError", e)
            if isinstance(obj, dict):
                if m == "keys":
                    return _View(list(obj.keys()))
                if m == "values":
                    return _View(list(obj.values()))
                if m == "items":
                    return _View([(k, v) for k, v in obj.items()])
                if m == "get":
                    return obj.get(args[0], args[1] if len(args) > 1 else None)
                if m == "setdefault" and 1 <= len(args) <= 2:
                    return obj.setdefault(args[0], args[1] if len(args) > 1 else None)
            if isinstance(obj, SymBin) and m == "zfill" and len(args) == 1 and isinstance(args[0], int):
                w = args[0]
                if any(b != 0 for b in obj.vec.bits[w:]):
                    raise Imprecise("the binary text of the value is padded to fewer digits than the word has bits")
                return _mk_text([("v", b[1]) if isinstance(b, tuple) else str(b) for b in reversed(obj.vec.bits[:w])])
            if isinstance(obj, (str, SymStr)) and m in ("rjust", "ljust") and 1 <= len(args) <= 2 and isinstance(args[0], int):
                ch = _as_chars(obj)
                fill = args[1] if len(args) == 2 else " "
                pad = [fill] * max(0, args[0] - len(ch))
                return _mk_text(pad + ch if m == "rjust" else ch + pad)
            if isinstance(obj, (str, SymStr)) and m == "zfill" and len(args) == 1 and isinstance(args[0], int):
                ch = _as_chars(obj)
                return _mk_text(["0"] * max(0, args[0] - len(ch)) + ch)
            if isinstance(obj, str) and m == "join" and len(args) == 1:
                out = []
                for i, piece in enumerate(self.iterate(args[0], e)):
                    if i:
                        out.extend(obj)
                    pc = [piece] if isinstance(piece, tuple) and len(piece) == 2 and piece[0] == "v" else _as_chars(piece)
                    if pc is None:
                        raise AnalysisError("minieval: join of a non-text")
                    out.extend(pc)
                return _mk_text(out)
            if isinstance(obj, str):
                if m == "startswith":
                    return obj.startswith(args[0])
                if m == "endswith":
                    return obj.endswith(args[0])
                if m in ("isupper", "islower", "isdigit", "isalpha", "isalnum", "isspace", "isprintable", "isascii", "upper", "lower",
                         "strip", "lstrip", "rstrip", "encode", "title", "capitalize", "removeprefix", "removesuffix", "partition", "rpartition",
                         "split", "rsplit", "replace", "casefold", "swapcase", "zfill") and not kwargs \
                        and all(isinstance(a_, (str, int)) and not isinstance(a_, bool) for a_ in args):
                    try:
                        return getattr(obj, m)(*args)
                    except (UnicodeError, LookupError):
                        raise Raised("UnicodeError", e)
            if isinstance(obj, (bytes, bytearray)) and not kwargs and m in ("decode", "hex", "upper", "lower", "strip", "isalnum", "isdigit") \
                    and all(isinstance(a_, (str, bytes)) for a_ in args):
                try:
                    return getattr(obj, m)(*args)
                except (UnicodeError, LookupError):
                    raise Raised("UnicodeError", e)
            if isinstance(obj, int) and not isinstance(obj, bool) and m == "bit_length" and not args:
                return obj.bit_length()
            if isinstance(obj, TypeRef) and obj.name == "dict" and m == "fromkeys" and 1 <= len(args) <= 2 and not kwargs:
                return {k_: (args[1] if len(args) == 2 else None) for k_ in self.iterate(args[0], e)}
            if isinstance(obj, (TypeRef, NewType)) and callable(obj.attrs.get(m)):
                return obj.attrs[m](*args, **kwargs)
            raise AnalysisError(f"minieval: method `{m}` of {type(obj).__name__}")
        name = f.id if isinstance(f, ast.Name) else None
        if name == "getattr":
            try:
                return self.attr(args[0], args[1], e)
            except Raised:
                if len(args) == 3:
                    return args[2]
                raise
        if name == "hasattr":
            try:
                self.attr(args[0], args[1], e)
                return True
            except Raised:
                return False
        if name == "isinstance":
            cls = args[1]
            want = cls.name if isinstance(cls, TypeRef) else None
            pyt = {"dict": dict, "list": list, "tuple": tuple, "str": str, "int": int, "bytes": bytes}.get(want)
            if pyt is not None:
                return isinstance(args[0], pyt) and not isinstance(args[0], bool)
            raise AnalysisError(f"minieval: isinstance(_, {want})")
        if name == "list":
            return list(self.iterate(args[0], e)) if args else []
        if name == "tuple":
            return tuple(self.iterate(args[0], e)) if args else ()
        if name == "dict":
            if not args:
                return dict(kwargs)
            src = args[0]
            if isinstance(src, dict):
                return dict(src)
            out = {}
            for kv in self.iterate(src, e):
                k, v = kv
                out[k] = v
            return out
        if name == "len":
            return len(self.iterate(args[0], e))
        if name == "zip" and args:
            return list(zip(*[self.iterate(a, e) for a in args]))
        if name == "range" and args and all(isinstance(a, int) for a in args):
            return list(range(*args))
        if name in ("reversed", "enumerate") and len(args) == 1 and not kwargs and name not in self.globals and name not in env \
                and isinstance(args[0], (list, tuple, _View, dict)) and not isinstance(args[0], SymStr):
            items = self.iterate(args[0], e)
            return list(reversed(items)) if name == "reversed" else list(enumerate(items))
        if name in ("ord", "chr", "bytes", "bytearray", "min", "max", "sum", "abs", "sorted", "set", "frozenset", "reversed", "enumerate") \
                and name not in self.globals and name not in env and not kwargs:
            conc = lambda v: isinstance(v, (int, str, bytes, bytearray, bool)) or (  # noqa: E731
                isinstance(v, (list, tuple, set, frozenset)) and not isinstance(v, SymStr) and all(conc(x) for x in v))
            if all(conc(a_) for a_ in args):
                import builtins as _b
                try:
                    r = getattr(_b, name)(*args)
                except TypeError:
                    raise Raised("TypeError", e)
                except ValueError:
                    raise Raised("ValueError", e)
                return list(r) if name in ("reversed", "enumerate") else r
        if name == "format" and len(args) == 2 and isinstance(args[0], SymVec) and "format" not in self.globals:
            raise AnalysisError("minieval: format() of the unknown value")
        if name == "iter" and len(args) == 1:
            return _View(list(self.iterate(args[0], e)))
        if name == "bool" and len(args) == 1:
            return self.truth(args[0])
        if name == "next" and args:
            items = self.iterate(args[0], e)
            if not items:
                if len(args) > 1:
                    return args[1]
                raise Raised("StopIteration", e)
            return items[0]
        if name == "type" and len(args) == 3:
            return NewType(args[0], args[1], args[2])
        if name == "type" and len(args) == 1:
            v = args[0]
            if isinstance(v, dict):
                return TypeRef("dict")
            if isinstance(v, list):
                return TypeRef("list")
            for pt in (bool, int, str, bytes, tuple):
                if type(v) is pt:
                    return TypeRef(pt.__name__)
            if isinstance(v, TypeRef) and "__class__" in v.attrs:
                return v.attrs["__class__"]
            raise AnalysisError("minieval: type(x)")
        if isinstance(f, ast.Name):
            tgt = env.get(name, self.globals.get(name))
            if isinstance(tgt, TypeRef) and callable(tgt.attrs.get("__call__")):
                return tgt.attrs["__call__"](*args, **kwargs)
        if name in env and callable(env[name]) and not isinstance(env[name], (TypeRef, NewType)):
            return env[name](*args, **kwargs)   # a callable handed in as an argument
        if name in self.globals and callable(self.globals[name]):
            return self.globals[name](*args, **kwargs)
        if name in self.mod_funcs and isinstance(f, ast.Name):
            return self.call(self.mod_funcs[name], args, kwargs)
        raise AnalysisError(f"minieval: call of `{norm(f)}`")


class _View:
    """dict view: iterable, not subscriptable"""

    def __init__(self, items):
        self.items = items


def bind_project(it, project, mod, g, depth=0):
    """make the project functions and classes that module `mod` imports by name callable in the interpreter `it` (they are
    evaluated from their source; memoising decorators are identities; a class is instantiated by running its __init__ on a
    fresh object, its methods and properties are bound to that object).  Names already in `g` (the harness stubs) win; the
    top-level definitions of a module something was taken from are registered as well (its functions refer to them)."""
    def memo_only(decs):
        return all(norm(d.func if isinstance(d, ast.Call) else d).split(".")[-1] in ("lru_cache", "cache") for d in decs)

    def register(name, node, home):
        if name in g:
            return
        if isinstance(node, ast.FunctionDef) and memo_only(node.decorator_list):
            g[name] = (lambda f_: lambda *a, **kw: it.call(f_, list(a), kw))(node)
        elif isinstance(node, ast.ClassDef) and (not node.decorator_list or [norm(d.func if isinstance(d, ast.Call) else d).split(".")[-1]
                                                                             for d in node.decorator_list] == ["dataclass"]):
            record = any(norm(b).split(".")[-1] == "NamedTuple" for b in node.bases) or bool(node.decorator_list)

            def make(*a, _c=node, **kw):
                inst = TypeRef(f"<{_c.name} object>", attrs={})
                if record and not any(isinstance(m, ast.FunctionDef) and m.name == "__init__" for m in _c.body):
                    # a NamedTuple / dataclass: the annotated names are the fields, in order; defaults from the class body
                    flds = [st for st in _c.body if isinstance(st, ast.AnnAssign) and isinstance(st.target, ast.Name)]
                    names = [st.target.id for st in flds]
                    if len(a) > len(names) or set(kw) - set(names):
                        raise Raised("TypeError", _c)
                    vals = dict(zip(names, a))
                    vals.update(kw)
                    for st in flds:
                        if st.target.id not in vals:
                            if st.value is None:
                                raise Raised("TypeError", _c)
                            vals[st.target.id] = it.ev(st.value, {})
                    inst.attrs.update(vals)
                props = {}
                for m in _c.body:
                    if not isinstance(m, ast.FunctionDef):
                        continue
                    decs = [norm(d) for d in m.decorator_list]
                    if decs == ["property"]:
                        props[m.name] = (lambda f_: lambda: it.call(f_, [inst]))(m)
                    elif not decs and m.name != "__init__":
                        inst.attrs[m.name] = (lambda f_: lambda *a2, **kw2: it.call(f_, [inst] + list(a2), kw2))(m)
                inst.attrs["__props__"] = props
                init = next((m for m in _c.body if isinstance(m, ast.FunctionDef) and m.name == "__init__"), None)
                if init is not None:
                    it.call(init, [inst] + list(a), kw)
                return inst
            g[name] = make
        else:
            return
        if depth < 2 and home is not None:
            for st in home.tree.body:
                if isinstance(st, (ast.FunctionDef, ast.ClassDef)):
                    register(st.name, st, None)
            bind_project(it, project, home, g, depth + 1)

    for nm_ in list(mod.import_bindings()):
        if nm_ in g:
            continue
        r_ = project.resolve_name(mod, nm_)
        if not (r_ and r_[1]):
            continue
        node = next((x for x in r_[0].tree.body if isinstance(x, (ast.FunctionDef, ast.ClassDef)) and x.name == r_[1]), None)
        if node is not None:
            if nm_ != r_[1]:
                tmp = {}
                g_saved = g.get(r_[1])
                register(r_[1], node, r_[0])
                if r_[1] in g:
                    g[nm_] = g[r_[1]]
            else:
                register(nm_, node, r_[0])
    it.globals.update(g)
