"""E1 - static loader of tpmstream/spec/** -> layout model L.

An abstract evaluator executes the *module top levels* of the spec package symbolically (the
package is never imported).  Only declarative forms are given meaning; everything else becomes
`Opaque`, and an Opaque value in a position a rule reads is an AnalysisError (exit 2).

Modelled decorator semantics (the trusted part, guarded by `model_guards`):
  tpm_dataclass  -> fields are the annotations in class-body order after inherited fields
  tpm_enum       -> public non-routine attributes (MRO-wide, sorted by name as inspect.getmembers
                    does) become members: int / AlgValue -> member, range -> NamedRange;
                    `_valid_values = ValidValues(cls)`; `filter(pred)` keeps satisfying members
  tpm_bitfield   -> public non-routine attributes are masks
"""
from __future__ import annotations

import ast
import math

from .project import AnalysisError, Module, Project, norm

SPEC_ROOT = "tpmstream.spec"


# ----------------------------------------------------------------------------- values
class Opaque:
    def __init__(self, reason):
        self.reason = reason

    def __repr__(self):
        return f"Opaque({self.reason})"


class BadTypeV:
    """what a field annotation evaluates to when it is not a type (a bound method that was not called ...)"""

    def __init__(self, what):
        self.what = what
        self.name = f"<{what}>"

    def __repr__(self):
        return f"<not a type: {self.what}>"


class InstanceV:
    """an object of a plain class of the layout modules whose __init__ only stores values: the stored attributes"""

    def __init__(self, cls, attrs):
        self.cls, self.attrs = cls, attrs

    def __repr__(self):
        return f"<{self.cls.name} object {sorted(self.attrs)}>"


class AnyT:
    def __repr__(self):
        return "Any"


ANY = AnyT()


class UnionT:
    def __init__(self, args):
        self.args = args


class ListT:
    def __init__(self, elem):
        self.elem = elem

    def __repr__(self):
        return f"list[{tname(self.elem)}]"


class RangeV:
    def __init__(self, start, stop):
        self.start, self.stop = start, stop

    def __repr__(self):
        return f"range({self.start:#x}, {self.stop:#x})"


class AlgValueV:
    def __init__(self, value, types):
        self.value, self.types = value, tuple(types)


class IntEnumMember:
    def __init__(self, cls, name, value):
        self.cls, self.name, self.value = cls, name, value

    def __eq__(self, o):
        return isinstance(o, IntEnumMember) and o.cls is self.cls and o.value == self.value

    def __hash__(self):
        return hash((id(self.cls), self.value))

    def __repr__(self):
        return f"{self.cls.name}.{self.name}"


class EnumMember:
    """A wrapped member of a tpm_enum class (value is a plain int; algtypes for AlgValue)."""

    def __init__(self, cls, name, value, algtypes=None):
        self.cls, self.name, self.value, self.algtypes = cls, name, value, algtypes

    def __repr__(self):
        return f"{self.cls.name}.{self.name}"


class NamedRangeV:
    def __init__(self, cls, name, start, stop):
        self.cls, self.name, self.start, self.stop = cls, name, start, stop

    def nibbles(self):
        return math.ceil((self.stop - self.start - 1).bit_length() / 4.0)

    def __repr__(self):
        return f"{self.cls.name}.{self.name}[{self.start:#x},{self.stop:#x})"


class BitMask:
    def __init__(self, cls, name, mask):
        self.cls, self.name, self.mask = cls, name, mask


class ValidValuesV:
    def __init__(self, items, node=None):
        self.items = items
        self.node = node


class DictV:
    """dict literal keeping duplicate keys (Python silently keeps the last)."""

    def __init__(self, items, node=None, module=None):
        self.items = items  # list[(key, value, key_node)]
        self.node = node
        self.module = module

    def get(self, key, default=None):
        out = default
        for k, v, _ in self.items:
            if same_key(k, key):
                out = v
        return out

    def keys(self):
        return [k for k, _, _ in self.items]


class TupleV:
    def __init__(self, items):
        self.items = items


class FuncV:
    def __init__(self, node, module, kind="function"):
        self.node, self.module, self.kind = node, module, kind


class LambdaV:
    def __init__(self, node, env):
        self.node, self.env = node, env


class ModuleV:
    def __init__(self, name):
        self.name = name


class ExternalV:
    """A known external name (typing.Any, enum.IntEnum, ...)."""

    def __init__(self, name):
        self.name = name

    def __repr__(self):
        return f"External({self.name})"


class ClassV:
    def __init__(self, name, module, bases, node):
        self.name = name
        self.module = module  # Module
        self.bases = bases
        self.node = node
        self.ns = {}  # attribute -> value (class-body order)
        self.ann = {}  # annotation name -> type value (class-body order)
        self.ann_nodes = {}
        self.kind = "plain"  # plain | enum | bitfield | dataclass | intenum
        self.decorators = []
        self.members = None  # enum: dict name -> EnumMember | NamedRangeV (getmembers order)
        self.masks = None  # bitfield: dict name -> int (getmembers order)
        self.fields = None  # dataclass: list[(name, type)]
        self.filtered_from = None

    def __repr__(self):
        return f"<class {self.name}>"

    def mro(self):
        out = [self]
        for b in self.bases:
            if isinstance(b, ClassV):
                for c in b.mro():
                    if c not in out:
                        out.append(c)
        return out

    def lookup(self, attr, default=None):
        for c in self.mro():
            if attr in c.ns:
                return c.ns[attr]
        return default

    def has(self, attr):
        return any(attr in c.ns for c in self.mro())

    def all_attrs(self):
        """dir()-like: attribute name -> value through the MRO (first definition wins)."""
        out = {}
        for c in self.mro():
            for k, v in c.ns.items():
                out.setdefault(k, v)
        return out

    def is_subclass_of(self, other):
        return other in self.mro()

    def has_opaque_base(self):
        return any(not isinstance(b, ClassV) for c in self.mro() for b in c.bases)


def tname(t):
    if isinstance(t, ClassV):
        return t.name
    if isinstance(t, ListT):
        return f"list[{tname(t.elem)}]"
    if t is None:
        return "None"
    if t is ANY:
        return "Any"
    return repr(t)


def same_key(a, b):
    if isinstance(a, EnumMember) and isinstance(b, EnumMember):
        return a.value == b.value  # numeric __eq__/__hash__ on int(self)
    if isinstance(a, EnumMember):
        return a.value == b if isinstance(b, int) else False
    if isinstance(b, EnumMember):
        return b.value == a if isinstance(a, int) else False
    try:
        return a == b
    except Exception:
        return a is b


def as_int(v):
    if isinstance(v, bool):
        return int(v)
    if isinstance(v, int):
        return v
    if isinstance(v, (EnumMember, IntEnumMember)):
        return v.value
    if isinstance(v, AlgValueV):
        return v.value
    return None


# ----------------------------------------------------------------------------- evaluator
class SpecModel:
    def __init__(self, project: Project):
        self.bad_annotations = []   # (class, field, what) for annotations that are not types
        self.project = project
        self.envs: dict[str, dict] = {}
        self.loading = set()
        self.order = []
        self.skipped = []  # (module, lineno, text) statements given no meaning
        self.dup_keys = []
        for name in sorted(project.modules):
            if name == SPEC_ROOT or name.startswith(SPEC_ROOT + "."):
                self.load(name)
        self._classes = None

    # -------------------------------------------------------------- module loading
    def load(self, name):
        if name in self.envs:
            return self.envs[name]
        if name not in self.project.modules:
            return None
        env = self.envs[name] = {}
        self.loading.add(name)
        mod = self.project.modules[name]
        # a package import also binds parent packages first (python imports parents first)
        parent = name.rpartition(".")[0]
        if parent and parent.startswith(SPEC_ROOT) and parent in self.project.modules and parent not in self.envs:
            self.load(parent)
        for stmt in mod.tree.body:
            self.exec_stmt(stmt, env, mod)
        self.loading.discard(name)
        self.order.append(name)
        return env

    def force(self, v, depth=0):
        while isinstance(v, Lazy):
            depth += 1
            if depth > 20:
                return Opaque("import chain too deep")
            v = self.import_attr(v.modname, v.attr)
        return v

    def import_attr(self, modname, attr):
        sub = modname + "." + attr
        if modname in self.project.modules:
            env = self.load(modname)
            if attr in env and not (isinstance(env[attr], Lazy) and env[attr].modname == modname
                                    and env[attr].attr == attr):
                return env[attr]
            if sub in self.project.modules:
                self.load(sub)
                return ModuleV(sub)
            return Opaque(f"{modname}.{attr} not bound (import cycle or undefined)")
        ext = {
            ("typing", "Any"): ANY,
            ("typing", "Union"): ExternalV("typing.Union"),
            ("enum", "IntEnum"): ExternalV("enum.IntEnum"),
            ("enum", "IntFlag"): ExternalV("enum.IntFlag"),
            ("functools", "reduce"): ExternalV("functools.reduce"),
            ("operator", "or_"): ExternalV("operator.or_"),
            ("operator", "and_"): ExternalV("operator.and_"),
            ("operator", "add"): ExternalV("operator.add"),
            ("enum", "auto"): ExternalV("enum.auto"),
            ("collections", "defaultdict"): ExternalV("collections.defaultdict"),
            ("functools", "lru_cache"): ExternalV("functools.lru_cache"),
            ("functools", "cache"): ExternalV("functools.cache"),
            ("dataclasses", "dataclass"): ExternalV("dataclasses.dataclass"),
            ("dataclasses", "fields"): ExternalV("dataclasses.fields"),
            ("math", "ceil"): ExternalV("math.ceil"),
            ("itertools", "islice"): ExternalV("itertools.islice"),
        }
        return ext.get((modname, attr), Opaque(f"external {modname}.{attr}"))

    # -------------------------------------------------------------- statements
    def exec_stmt(self, stmt, env, mod: Module):
        if isinstance(stmt, ast.Import):
            for a in stmt.names:
                top = a.name.split(".")[0]
                if a.name in self.project.modules:
                    self.load(a.name)
                env[a.asname or top] = ModuleV(a.name if a.asname else top) \
                    if top in self.project.modules or a.name in self.project.modules \
                    else ExternalV(a.name)
        elif isinstance(stmt, ast.ImportFrom):
            modname = mod.resolve_relative(stmt.level, stmt.module or "")
            for a in stmt.names:
                env[a.asname or a.name] = Lazy(modname, a.name)
        elif isinstance(stmt, ast.ClassDef):
            env[stmt.name] = self.exec_class(stmt, env, mod)
        elif isinstance(stmt, (ast.FunctionDef, ast.AsyncFunctionDef)):
            env[stmt.name] = FuncV(stmt, mod)
        elif isinstance(stmt, ast.Assign):
            val = self.eval(stmt.value, env, mod)
            for t in stmt.targets:
                if isinstance(t, ast.Name):
                    env[t.id] = val
                else:
                    self.skipped.append((mod.name, stmt.lineno, norm(stmt)[:80]))
        elif isinstance(stmt, ast.AnnAssign) and isinstance(stmt.target, ast.Name):
            if stmt.value is not None:
                env[stmt.target.id] = self.eval(stmt.value, env, mod)
        elif isinstance(stmt, ast.Expr):
            if isinstance(stmt.value, ast.Constant):
                return  # docstring
            self.skipped.append((mod.name, stmt.lineno, norm(stmt)[:80]))
        elif isinstance(stmt, (ast.Assert, ast.Pass)):
            return
        else:
            # for/if/try/... at module level: no meaning; names they bind become Opaque
            self.skipped.append((mod.name, stmt.lineno, norm(stmt).split("\n")[0][:80]))
            for n in ast.walk(stmt):
                if isinstance(n, ast.Name) and isinstance(n.ctx, ast.Store):
                    env.setdefault(n.id, Opaque(f"bound by unmodelled statement at {mod.relpath}:{stmt.lineno}"))

    def exec_class(self, node: ast.ClassDef, env, mod):
        bases = [self.eval(b, env, mod) for b in node.bases]
        cls = ClassV(node.name, mod, bases, node)
        cenv = dict(env)
        for stmt in node.body:
            if isinstance(stmt, ast.Assign):
                val = self.eval(stmt.value, cenv, mod, owner=cls)
                for t in stmt.targets:
                    if isinstance(t, ast.Name):
                        cls.ns[t.id] = val
                        cenv[t.id] = val
            elif isinstance(stmt, ast.AnnAssign) and isinstance(stmt.target, ast.Name):
                cls.ann[stmt.target.id] = self.eval(stmt.annotation, cenv, mod, owner=cls)
                cls.ann_nodes[stmt.target.id] = stmt
                if stmt.value is not None:
                    cls.ns[stmt.target.id] = self.eval(stmt.value, cenv, mod, owner=cls)
            elif isinstance(stmt, (ast.FunctionDef, ast.AsyncFunctionDef)):
                kind = "function"
                for d in stmt.decorator_list:
                    dn = norm(d)
                    if dn == "classmethod":
                        kind = "classmethod"
                    elif dn == "staticmethod":
                        kind = "staticmethod"
                cls.ns[stmt.name] = FuncV(stmt, mod, kind)
                cenv[stmt.name] = cls.ns[stmt.name]
            elif isinstance(stmt, ast.Expr) and isinstance(stmt.value, ast.Constant):
                continue
            elif isinstance(stmt, ast.Pass):
                continue
            else:
                self.skipped.append((mod.name, stmt.lineno, "class body: " + norm(stmt).split("\n")[0][:60]))
        # IntEnum / IntFlag (auto() counts 1, 2, 3 ... / 1, 2, 4 ...)
        flag = any(isinstance(b, ExternalV) and b.name == "enum.IntFlag" for b in bases)
        if flag or any(isinstance(b, ExternalV) and b.name == "enum.IntEnum" for b in bases):
            cls.kind = "intflag" if flag else "intenum"
            n = 0
            for k, v in list(cls.ns.items()):
                if k.startswith("_") or isinstance(v, FuncV):
                    continue
                if isinstance(v, ExternalV) and v.name == "enum.auto()":
                    n = (1 << n.bit_length()) if flag else n + 1
                elif isinstance(v, int):
                    n = v
                else:
                    continue
                cls.ns[k] = IntEnumMember(cls, k, n)
        # a base's __init_subclass__ hook runs when the class object is created (before the decorators see it)
        for b in cls.mro()[1:]:
            hook = b.ns.get("__init_subclass__") if isinstance(b, ClassV) else None
            if isinstance(hook, FuncV):
                hargs = hook.node.args
                henv = dict(self.envs.get(hook.module.name, {}))
                if hargs.args:
                    henv[hargs.args[0].arg] = cls
                body = [s_ for s_ in hook.node.body if not (isinstance(s_, ast.Expr) and isinstance(s_.value, ast.Constant))]
                r = self.exec_body(body, henv, hook.module)
                if r is not None and isinstance(r[1], Opaque):
                    raise AnalysisError(f"{mod.relpath}: __init_subclass__ of {b.name} cannot be evaluated for {cls.name}: {r[1].reason}")
                break
        # decorators, innermost first
        for d in reversed(node.decorator_list):
            cls = self.apply_class_decorator(d, cls, env, mod)
        return cls

    def apply_class_decorator(self, d, cls: ClassV, env, mod):
        target = d.func if isinstance(d, ast.Call) else d
        dv = self.eval(target, env, mod)
        name = dv.node.name if isinstance(dv, FuncV) else None
        if isinstance(dv, FuncV) and dv.module.name != "tpmstream.spec.common.values" \
                and dv.module.name != "tpmstream.spec.common.base_type":
            name = None
        cls.decorators.append(name or norm(d))
        if name == "tpm_dataclass":
            return self.dec_dataclass(cls)
        if name == "tpm_enum":
            pred = None
            if isinstance(d, ast.Call):
                for k in d.keywords:
                    if k.arg == "filter":
                        pred = self.eval(k.value, env, mod)
            return self.dec_enum(cls, pred)
        if name == "tpm_bitfield":
            return self.dec_bitfield(cls)
        if name == "numeric":
            cls.ns["__numeric__"] = True
            return cls
        if isinstance(dv, ExternalV) and dv.name == "dataclasses.dataclass":
            return cls
        raise AnalysisError(
            f"{mod.relpath}:{d.lineno}: class decorator {norm(d)} on {cls.name} is not modelled"
        )

    # -------------------------------------------------------------- decorator models
    @staticmethod
    def public_non_routine(cls: ClassV):
        """inspect.getmembers(cls) filtered by _is_public_non_funtion_attr: sorted by name."""
        out = []
        for k, v in sorted(cls.all_attrs().items()):
            if k.startswith("_") or isinstance(v, FuncV):
                continue
            out.append((k, v))
        return out

    def dec_dataclass(self, cls: ClassV):
        cls.kind = "dataclass"
        fields = []
        for b in reversed(cls.mro()[1:]):
            if b.kind == "dataclass" and b.fields:
                for f in b.fields:
                    fields = [g for g in fields if g[0] != f[0]] + [f] if any(g[0] == f[0] for g in fields) else fields + [f]
        for n, t in cls.ann.items():
            t = self.force(t) if not isinstance(t, (ClassV, ListT)) and t is not None else t
            if isinstance(t, BoundV):
                # a method object where a type belongs (`T.plus` for `T.plus()`): the layout has no type for this field
                what = f"{getattr(t.self, 'name', t.self)!s}.{t.func if isinstance(t.func, str) else t.func.node.name}"
                self.bad_annotations.append((cls, n, what))
                t = BadTypeV(f"method {what}")
            if any(g[0] == n for g in fields):
                fields = [(n, t) if g[0] == n else g for g in fields]
            else:
                fields.append((n, t))
        cls.fields = fields
        return cls

    def dec_enum(self, cls: ClassV, pred=None):
        new = ClassV(cls.name, cls.module, cls.bases, cls.node)
        new.ns = dict(cls.ns)
        new.ann = dict(cls.ann)
        new.decorators = list(cls.decorators)
        new.kind = "enum"
        new.filtered_from = cls if pred is not None else cls.filtered_from
        members = {}
        for k, v in self.public_non_routine(new):
            if isinstance(v, EnumMember):
                cand = EnumMember(new, k, v.value, v.algtypes)
                cand.algobj = getattr(v, "algobj", None)
            elif isinstance(v, NamedRangeV):
                # real code: isinstance(attr_value, range) is False for an already wrapped
                # NamedRange -> cls(value=NamedRange) ; only reachable through filter()
                cand = NamedRangeV(new, k, v.start, v.stop)
            elif isinstance(v, RangeV):
                cand = NamedRangeV(new, k, v.start, v.stop)
            elif isinstance(v, AlgValueV):
                cand = EnumMember(new, k, v.value, v.types)
                cand.algobj = v   # (the wrapped object itself: what its own __init__ stored on it is read from there)
            elif isinstance(v, bool) or not isinstance(v, int):
                raise AnalysisError(
                    f"{cls.module.relpath}: enum {cls.name}.{k} has unmodelled value {v!r}"
                )
            else:
                cand = EnumMember(new, k, v)
            if pred is not None:
                keep = self.call_value(pred, [k, v], cls.module)
                if not keep:
                    new.ns.pop(k, None)
                    if any(k in c.ns for c in new.mro()[1:]):
                        raise AnalysisError(f"filter removes inherited member {cls.name}.{k} (delattr would fail)")
                    continue
            members[k] = cand
            new.ns[k] = cand
        new.members = members
        new.ns["_valid_values"] = ValidValuesV([new])
        new.ns["__tpm_enum__"] = True
        return new

    def dec_bitfield(self, cls: ClassV):
        cls.kind = "bitfield"
        masks = {}
        for k, v in self.public_non_routine(cls):
            if isinstance(v, BitMask):
                v = v.mask
            if isinstance(v, bool) or not isinstance(v, int):
                raise AnalysisError(f"{cls.module.relpath}: bit-field {cls.name}.{k} has unmodelled value {v!r}")
            masks[k] = v
            cls.ns[k] = BitMask(cls, k, v)
        cls.masks = masks
        return cls

    # -------------------------------------------------------------- expressions
    def eval(self, node, env, mod, owner=None):
        try:
            return self._eval(node, env, mod, owner)
        except AnalysisError:
            raise
        except RecursionError:
            raise
        except Exception as e:  # any evaluator hiccup is "no meaning", not a crash
            return Opaque(f"{type(e).__name__} evaluating {norm(node)[:60]}")

    def _eval(self, node, env, mod, owner):
        ev = lambda n: self._eval(n, env, mod, owner)  # noqa: E731
        if isinstance(node, ast.Constant):
            return node.value
        if isinstance(node, ast.Name):
            if node.id in env:
                return self.force(env[node.id])
            if node.id in ("list", "range", "len", "all", "any", "int", "bool", "dict", "tuple", "frozenset", "map",
                           "sorted", "set", "isinstance", "hasattr", "callable", "str", "type", "getattr"):
                return ExternalV("builtins." + node.id)
            if node.id == "any":
                return ANY
            return Opaque(f"unbound name {node.id}")
        if isinstance(node, ast.Attribute):
            base = ev(node.value)
            return self.getattr(base, node.attr, mod, node)
        if isinstance(node, ast.UnaryOp):
            v = ev(node.operand)
            if isinstance(node.op, ast.USub) and as_int(v) is not None:
                return -as_int(v)
            if isinstance(node.op, ast.Not) and not isinstance(v, Opaque):
                return not v
            return Opaque("unary " + norm(node))
        if isinstance(node, ast.BinOp):
            left, right = ev(node.left), ev(node.right)
            if isinstance(node.op, ast.BitOr) and isinstance(left, DictV) and isinstance(right, DictV):
                items = list(left.items)
                for k_, v_, n_ in right.items:
                    hit = next((i for i, (k0, _v0, _n0) in enumerate(items) if same_key(k0, k_)), None)
                    if hit is None:
                        items.append((k_, v_, n_))
                    else:
                        items[hit] = (items[hit][0], v_, n_)
                return DictV(items, node, mod)
            if isinstance(node.op, ast.Add) and isinstance(left, TupleV) and isinstance(right, TupleV):
                return TupleV(list(left.items) + list(right.items))
            a, b = as_int(left), as_int(right)
            if a is None or b is None:
                return Opaque("binop " + norm(node)[:60])
            ops = {ast.Add: lambda: a + b, ast.Sub: lambda: a - b, ast.Mult: lambda: a * b,
                   ast.Pow: lambda: a ** b, ast.LShift: lambda: a << b, ast.RShift: lambda: a >> b,
                   ast.BitOr: lambda: a | b, ast.BitAnd: lambda: a & b, ast.BitXor: lambda: a ^ b,
                   ast.FloorDiv: lambda: a // b, ast.Mod: lambda: a % b}
            f = ops.get(type(node.op))
            return f() if f else Opaque("binop " + norm(node)[:60])
        if isinstance(node, ast.Subscript):
            base = ev(node.value)
            if isinstance(base, ExternalV) and base.name == "builtins.list":
                return ListT(ev(node.slice))
            if isinstance(base, ExternalV) and base.name == "typing.Union":
                sl = node.slice.elts if isinstance(node.slice, ast.Tuple) else [node.slice]
                return UnionT([ev(s) for s in sl])
            if isinstance(base, DictV):
                return base.get(ev(node.slice), Opaque("missing key"))
            return Opaque("subscript " + norm(node)[:60])
        if isinstance(node, ast.Dict):
            items = []
            spread = set()   # positions that came from a `**other` part: a later entry with the same key replaces them in place

            def put(kv, vv, kn, from_spread):
                for i, (k0, _v0, _n0) in enumerate(items):
                    if same_key(k0, kv) and (i in spread or from_spread):
                        items[i] = (k0, vv, kn)      # dict semantics: the first position, the last value
                        if not from_spread:
                            spread.discard(i)
                        return
                items.append((kv, vv, kn))
                if from_spread:
                    spread.add(len(items) - 1)
            for k, v in zip(node.keys, node.values):
                if k is None:
                    inner = ev(v)
                    if isinstance(inner, DictV):
                        for k1, v1, n1 in inner.items:
                            put(k1, v1, n1, True)
                    else:
                        return Opaque("dict unpacking of non-dict")
                else:
                    put(ev(k), ev(v), k, False)   # (two literal entries with the same key are both kept: C20 reports them)
            return DictV(items, node, mod)
        if isinstance(node, ast.DictComp):
            try:
                pairs = self.genexp(node, env, mod, elt=lambda e_: (self._eval(node.key, e_, mod, owner), self._eval(node.value, e_, mod, owner)))
            except AnalysisError as ex:
                return Opaque(str(ex)[:80])
            items = []
            for k_, v_ in pairs:
                hit = next((i for i, (k0, _v0, _n0) in enumerate(items) if same_key(k0, k_)), None)
                if hit is None:
                    items.append((k_, v_, None))
                else:
                    items[hit] = (items[hit][0], v_, None)      # dict semantics: the first position, the last value
            return DictV(items, node, mod)
        if isinstance(node, (ast.Tuple, ast.List)):
            return TupleV([ev(e) for e in node.elts])
        if isinstance(node, ast.Lambda):
            return LambdaV(node, dict(env))
        if isinstance(node, ast.Call):
            return self.eval_call(node, env, mod, owner)
        if isinstance(node, ast.Compare) or isinstance(node, ast.BoolOp) or isinstance(node, ast.GeneratorExp) \
                or isinstance(node, ast.IfExp) or isinstance(node, ast.ListComp):
            return self.pure(node, env, mod)
        if isinstance(node, ast.JoinedStr):
            return Opaque("f-string")
        return Opaque(type(node).__name__)

    def getattr(self, base, attr, mod, node=None):
        if isinstance(base, ClassV):
            v = base.lookup(attr)
            if v is not None or base.has(attr):
                if isinstance(v, FuncV):
                    return BoundV(v, base)
                return v
            if attr == "filter" and base.has("__tpm_enum__"):
                return BoundV("filter", base)
            if attr == "plus" and (base.has("__tpm_enum__") or any(c.kind == "dataclass" for c in base.mro())):
                return BoundV("plus", base)
            if attr == "__name__":
                return base.name
            if attr == "__annotations__":
                return DictV([(k, v, None) for k, v in base.ann.items()])
            return Opaque(f"{base.name}.{attr} undefined")
        if isinstance(base, ModuleV):
            env = self.load(base.name)
            if env is not None and attr in env:
                return self.force(env[attr])
            if base.name + "." + attr in self.project.modules:
                self.load(base.name + "." + attr)
                return ModuleV(base.name + "." + attr)
            return Opaque(f"module attr {base.name}.{attr}")
        if isinstance(base, EnumMember):
            if attr == "_value":
                if getattr(base, "algobj", None) is not None:
                    return base.algobj
                return AlgValueV(base.value, base.algtypes) if base.algtypes is not None else base.value
            if attr == "_name":
                return base.name
        if isinstance(base, AlgValueV):
            if attr in getattr(base, "attrs", {}):
                return base.attrs[attr]
            if attr == "_types":
                return TupleV(list(base.types))
            if attr == "_value":
                return base.value
            prop = self.property_of("AlgValue", attr)
            if prop is not None:
                return self.call_value(prop, [base], prop.module)
            meth = self.method_of("AlgValue", attr)
            if meth is not None:
                return BoundV(meth, base)   # a plain method of the value class: evaluated from its source when called
        if isinstance(base, InstanceV):
            if attr in base.attrs:
                return base.attrs[attr]
            v = base.cls.lookup(attr)
            if isinstance(v, FuncV):
                return BoundV(v, base)
            if v is not None or base.cls.has(attr):
                return v
            return Opaque(f"attribute .{attr} of {base!r}")
        if isinstance(base, DictV) and attr == "get":
            return BoundV("get", base)
        if isinstance(base, NamedRangeV):
            return BoundV(attr, base)
        if isinstance(base, ExternalV):
            return ExternalV(base.name + "." + attr)
        return Opaque(f"attribute .{attr} of {base!r}")

    def eval_call(self, node: ast.Call, env, mod, owner):
        if isinstance(node.func, ast.Attribute) and node.func.attr in ("lower", "upper", "title", "capitalize", "strip") and not node.args \
                and not node.keywords:
            b_ = self._eval(node.func.value, env, mod, owner)
            if isinstance(b_, str):
                return getattr(b_, node.func.attr)()
        f = self._eval(node.func, env, mod, owner)
        args = []
        for a in node.args:
            if isinstance(a, ast.Starred):
                v = self._eval(a.value, env, mod, owner)
                if isinstance(v, TupleV):
                    args.extend(v.items)
                else:
                    return Opaque("star-arg")
            else:
                args.append(self._eval(a, env, mod, owner))
        kwargs = {k.arg: self._eval(k.value, env, mod, owner) for k in node.keywords if k.arg}
        # known constructors
        if isinstance(f, ClassV):
            if f.name == "AlgValue":
                if args and as_int(args[0]) is not None:
                    inst = AlgValueV(as_int(args[0]), args[1:])
                    self.run_init(f, inst, args, kwargs)
                    return inst
                return Opaque("AlgValue(non-int)")
            if getattr(f, "kind", None) in ("intenum", "intflag") and len(args) == 1 and as_int(args[0]) is not None and not kwargs:
                hit = [m_ for m_ in f.ns.values() if isinstance(m_, IntEnumMember) and m_.value == as_int(args[0])]
                return hit[0] if hit else as_int(args[0])   # (a combination of flags is kept as its number)
            if f.name == "ValidValues":
                return ValidValuesV(args, node)
            inst = self.plain_instance(f, args, kwargs)
            return inst if inst is not None else Opaque(f"instance of {f.name}")
        if isinstance(f, ExternalV):
            if f.name == "builtins.range":
                ints = [as_int(a) for a in args]
                if None in ints:
                    return Opaque("range(non-int)")
                if len(ints) == 1:
                    return RangeV(0, ints[0])
                if len(ints) == 2:
                    return RangeV(ints[0], ints[1])
                return Opaque("range with step")
            if f.name == "enum.auto":
                return ExternalV("enum.auto()")
            if f.name == "builtins.map" and len(args) == 2 and not kwargs:
                fn_, src = args
                items = list(range(src.start, src.stop)) if isinstance(src, RangeV) else list(src.items) if isinstance(src, TupleV) else None
                if items is None or len(items) > 4096:
                    return Opaque("map over an unmodelled iterable")
                out = []
                for x in items:
                    if isinstance(fn_, BoundV):
                        out.append(self.call_bound(fn_, [x], {}, mod))
                    elif isinstance(fn_, (FuncV, LambdaV)):
                        out.append(self.call_value(fn_, [x], mod))
                    else:
                        return Opaque("map of an unmodelled callable")
                return TupleV(out)
            if f.name == "builtins.int" and len(args) == 1 and not kwargs and as_int(args[0]) is not None:
                return as_int(args[0])
            if f.name == "builtins.getattr" and len(args) in (2, 3) and isinstance(args[1], str) and not kwargs:
                v_ = self.getattr(args[0], args[1], mod, node)
                return args[2] if isinstance(v_, Opaque) and len(args) == 3 else v_
            if f.name == "builtins.sorted" and len(args) == 1 and set(kwargs) <= {"key", "reverse"}:
                items = self.iter_items(args[0])
                if items is None:
                    return Opaque("sorted() of an unmodelled iterable")

                def plain(k_):
                    if isinstance(k_, TupleV):
                        return tuple(plain(x) for x in k_.items)
                    if isinstance(k_, str):
                        return (1, k_)
                    if as_int(k_) is not None:
                        return (0, as_int(k_))
                    raise AnalysisError("sort key is not a number / text / tuple of those")
                keyf = kwargs.get("key")
                try:
                    keys = [plain(self.call_value(keyf, [x], mod) if keyf is not None else x) for x in items]
                except AnalysisError as ex:
                    return Opaque(str(ex))
                rev = kwargs.get("reverse", False)
                if not isinstance(rev, bool):
                    return Opaque("sorted(reverse=<computed>)")
                order = sorted(range(len(items)), key=lambda i_: keys[i_], reverse=rev)
                return TupleV([items[i_] for i_ in order])
            if f.name == "functools.reduce" and len(args) in (2, 3) and not kwargs and isinstance(args[1], TupleV):
                fn_, items = args[0], list(args[1].items)
                if len(args) == 3:
                    acc = args[2]
                elif items:
                    acc, items = items[0], items[1:]
                else:
                    return Opaque("reduce() of an empty sequence")
                for x in items:
                    if isinstance(fn_, ExternalV) and fn_.name in ("operator.or_", "operator.and_", "operator.add"):
                        a_, b_ = as_int(acc), as_int(x)
                        if a_ is None or b_ is None:
                            return Opaque("reduce over non-integers")
                        acc = a_ | b_ if fn_.name.endswith("or_") else a_ & b_ if fn_.name.endswith("and_") else a_ + b_
                    elif isinstance(fn_, (FuncV, LambdaV)):
                        acc = self.call_value(fn_, [acc, x], mod)
                    else:
                        return Opaque("reduce of an unmodelled callable")
                return acc
            if f.name == "itertools.islice" and len(args) == 2 and as_int(args[1]) is not None and not kwargs:
                n_ = as_int(args[1])
                src = args[0]
                if isinstance(src, TupleV):
                    return TupleV(list(src.items[:n_]))
                if isinstance(src, RangeV):
                    return TupleV(list(range(src.start, src.stop))[:n_])
                if isinstance(src, NamedRangeV):
                    items = []
                    for i in range(src.start, min(src.stop, src.start + n_)):
                        name = "{b}.{i:0{w}x}".format(b=src.name, i=i - src.start, w=src.nibbles())
                        items.append(EnumMember(src.cls, name, i))
                    return TupleV(items)
                return Opaque("islice of unmodelled iterable")
            if f.name in ("builtins.tuple", "builtins.list", "builtins.set", "builtins.frozenset") and len(args) == 1 and not kwargs \
                    and isinstance(args[0], TupleV):
                items = list(args[0].items)
                if f.name.endswith("set"):   # a set of names: order is not part of the value
                    if not all(isinstance(x, (str, int)) for x in items):
                        return Opaque(f"{f.name} of non-literals")
                    items = sorted(set(items), key=repr)
                return TupleV(items)
            if f.name == "collections.defaultdict":
                if len(args) == 2 and isinstance(args[1], DictV):
                    d = DictV(args[1].items, args[1].node, mod)
                    d.default_factory = args[0]
                    return d
                return Opaque("defaultdict(...)")
            if f.name in ("builtins.all", "builtins.any", "builtins.len") and isinstance(node.func, ast.Name) \
                    and len(node.args) == 1:
                return self.pure(node, env, mod)
            return Opaque(f"call of external {f.name}")
        if isinstance(f, BoundV):
            return self.call_bound(f, args, kwargs, mod)
        if isinstance(f, (FuncV, LambdaV)):
            return self.call_value(f, args, mod, kwargs)
        return Opaque("call " + norm(node.func)[:60])

    def call_bound(self, f: "BoundV", args, kwargs, mod):
        if isinstance(f.self, DictV) and f.func == "get" and 1 <= len(args) <= 2 and not kwargs:
            return f.self.get(args[0], args[1] if len(args) == 2 else None)
        if isinstance(f.self, InstanceV) and isinstance(f.func, FuncV):
            return self.call_value(f.func, [f.self] + list(args), f.func.module, kwargs)
        if isinstance(f.self, AlgValueV) and isinstance(f.func, FuncV):
            return self.call_value(f.func, [f.self] + list(args), f.func.module, kwargs)
        if isinstance(f.self, NamedRangeV):
            if f.func == "by_number" and len(args) == 1 and as_int(args[0]) is not None:
                nr, n = f.self, as_int(args[0])
                if not nr.start <= n < nr.stop:
                    return Opaque("by_number out of range (returns a ValueError *object*)")
                name = "{b}.{i:0{w}x}".format(b=nr.name, i=n - nr.start, w=nr.nibbles())
                return EnumMember(nr.cls, name, n)
            return Opaque(f"NamedRange.{f.func}")
        fn, cls = f.func, f.self
        if fn == "plus":
            return cls
        if fn == "filter":
            if len(args) == 1 and not kwargs:
                return self.dec_enum(cls, args[0])
            return Opaque("filter(...) with unexpected arguments")
        if isinstance(fn, str):
            return Opaque(f"modelled method {fn}")
        if fn.node.name == "plus":
            return cls
        if fn.node.name == "filter" or (fn.node.name == "_filter"):
            if len(args) == 1:
                return self.dec_enum(cls, args[0])
        if fn.kind == "classmethod":
            return self.call_value(fn, [cls] + args, mod)
        return Opaque(f"method {cls.name}.{fn.node.name}")

    def call_value(self, f, args, mod, kwargs=None):
        """Evaluate a pure function / lambda: the body must be [docstring] + straight-line `name = <expr>` bindings +
        `return <expr>` (table-building helpers of the declarative modules)."""
        if isinstance(f, LambdaV):
            params = [a.arg for a in f.node.args.args]
            env = dict(f.env)
            env.update(zip(params, args))
            return self.pure(f.node.body, env, mod)
        if isinstance(f, FuncV):
            body = [s for s in f.node.body if not (isinstance(s, ast.Expr) and isinstance(s.value, ast.Constant))]
            a = f.node.args
            params = [x.arg for x in a.args] + [x.arg for x in a.kwonlyargs]
            env = dict(self.envs.get(f.module.name, {}))
            for p_, d in zip(reversed([x.arg for x in a.args]), reversed(a.defaults)):
                env[p_] = self._eval(d, dict(self.envs.get(f.module.name, {})), f.module, None)
            for x, d in zip(a.kwonlyargs, a.kw_defaults):
                if d is not None:
                    env[x.arg] = self._eval(d, dict(self.envs.get(f.module.name, {})), f.module, None)
            env.update(zip([x.arg for x in a.args], args))
            extra = []
            for k, v in (kwargs or {}).items():
                if k not in params:
                    if a.kwarg is None:
                        return Opaque(f"unexpected keyword {k} for {f.node.name}")
                    extra.append((k, v, None))
                    continue
                env[k] = v
            if a.kwarg is not None:
                env[a.kwarg.arg] = DictV(extra, None, f.module)
            if a.vararg:
                env[a.vararg.arg] = TupleV(list(args[len(a.args):]))
            r = self.exec_body(body, env, f.module)
            return r[1] if r is not None else None
        return Opaque("call of non-function")

    def run_init(self, cls, inst, args, kwargs):
        """bind what the class's own __init__ stores on the instance (`self.x = <expr over the arguments>`), so that the model
        of an AlgValue follows its definition instead of assuming one"""
        ini = cls.ns.get("__init__")
        inst.attrs = {}
        if not isinstance(ini, FuncV):
            return
        a = ini.node.args
        names = [x.arg for x in a.args]
        env = dict(self.envs.get(ini.module.name, {}))
        env[names[0]] = inst
        for nm_, v_ in zip(names[1:], args):
            env[nm_] = v_
        if a.vararg:
            env[a.vararg.arg] = TupleV(list(args[len(names) - 1:]))
        for k_, v_ in (kwargs or {}).items():
            env[k_] = v_
        for st in ini.node.body:
            if isinstance(st, ast.Assign) and len(st.targets) == 1 and isinstance(st.targets[0], ast.Attribute) \
                    and isinstance(st.targets[0].value, ast.Name) and st.targets[0].value.id == names[0]:
                inst.attrs[st.targets[0].attr] = self._eval(st.value, env, ini.module, None)
        # the two attributes the rest of the model reads directly keep their meaning
        if "_value" in inst.attrs and as_int(inst.attrs["_value"]) is not None:
            inst.value = as_int(inst.attrs["_value"])
        inst.attrs.pop("_value", None)

    def property_of(self, clsname, attr):
        for env in self.envs.values():
            c = env.get(clsname)
            if isinstance(c, ClassV) and c.name == clsname:
                f = c.ns.get(attr)
                if isinstance(f, FuncV) and any(norm(d) == "property" for d in f.node.decorator_list):
                    return f
        return None

    def plain_instance(self, cls, args, kwargs):
        """InstanceV for `cls(args)` when cls is a plain class (no decorator semantics) whose own __init__ consists of asserts and
        `self.<name> = <expr>` statements; None otherwise"""
        if getattr(cls, "kind", None) not in (None, "plain") or cls.has("__tpm_enum__"):
            return None
        ini = cls.ns.get("__init__")
        if not isinstance(ini, FuncV) or ini.node.decorator_list:
            return None
        a = ini.node.args
        if a.vararg or a.kwarg or a.kwonlyargs or a.posonlyargs:
            return None
        names = [x.arg for x in a.args]
        if len(args) > len(names) - 1:
            return None
        env = dict(self.envs.get(ini.module.name, {}))
        inst = InstanceV(cls, {})
        env[names[0]] = inst
        for nm_, d in zip(reversed(names), reversed(a.defaults)):
            env[nm_] = self._eval(d, dict(self.envs.get(ini.module.name, {})), ini.module, None)
        for nm_, v_ in zip(names[1:], args):
            env[nm_] = v_
        for k_, v_ in (kwargs or {}).items():
            if k_ not in names[1:]:
                return None
            env[k_] = v_
        if any(n_ not in env for n_ in names):
            return None
        for st in ini.node.body:
            if isinstance(st, ast.Expr) and isinstance(st.value, ast.Constant) or isinstance(st, (ast.Assert, ast.Pass)):
                continue
            tgt = st.targets[0] if isinstance(st, ast.Assign) and len(st.targets) == 1 else st.target if isinstance(st, ast.AnnAssign) and st.value is not None else None
            if isinstance(tgt, ast.Attribute) and isinstance(tgt.value, ast.Name) and tgt.value.id == names[0]:
                inst.attrs[tgt.attr] = self._eval(st.value, env, ini.module, None)
                continue
            return None
        return inst

    def method_of(self, clsname, attr):
        for env in self.envs.values():
            c = env.get(clsname)
            if isinstance(c, ClassV) and c.name == clsname:
                f = c.ns.get(attr)
                if isinstance(f, FuncV) and not f.node.decorator_list:
                    return f
        return None

    def exec_body(self, stmts, env, mod, self_cls=None):
        """run the statements of a small table-building function / class hook: name bindings, `cls.attr = value`, if / else on
        foldable tests, return.  -> ("return", value) or None (fell off the end); anything else makes the result Opaque."""
        for st in stmts:
            if isinstance(st, ast.Expr) and isinstance(st.value, ast.Constant):
                continue
            if isinstance(st, ast.Expr) and isinstance(st.value, ast.Call) and norm(st.value.func).startswith("super()."):
                continue   # object's hooks do nothing
            if isinstance(st, ast.Pass):
                continue
            if isinstance(st, ast.Return):
                return ("return", self._eval(st.value, env, mod, None) if st.value is not None else None)
            if isinstance(st, ast.Assign) and len(st.targets) == 1 and isinstance(st.targets[0], ast.Name):
                env[st.targets[0].id] = self._eval(st.value, env, mod, None)
                continue
            if isinstance(st, ast.Assign) and len(st.targets) == 1 and isinstance(st.targets[0], ast.Attribute) \
                    and isinstance(st.targets[0].value, ast.Name) and isinstance(env.get(st.targets[0].value.id), ClassV):
                env[st.targets[0].value.id].ns[st.targets[0].attr] = self._eval(st.value, env, mod, None)
                continue
            if isinstance(st, ast.Raise):
                return ("return", Opaque(f"raises `{norm(st)[:60]}`"))   # (only when this statement is reached)
            if isinstance(st, ast.If):
                t = self.hook_test(st.test, env, mod)
                if isinstance(t, Opaque):
                    return ("return", Opaque(f"unfoldable test `{norm(st.test)[:60]}`"))
                r = self.exec_body(st.body if t else st.orelse, env, mod)
                if r is not None:
                    return r
                continue
            return ("return", Opaque(f"unmodelled statement `{norm(st).splitlines()[0][:60]}`"))
        return None

    def hook_test(self, test, env, mod):
        if isinstance(test, ast.BoolOp):
            vals = [self.hook_test(v, env, mod) for v in test.values]
            if any(isinstance(v, Opaque) for v in vals):
                return Opaque("unfoldable operand")
            return all(vals) if isinstance(test.op, ast.And) else any(vals)
        if isinstance(test, ast.UnaryOp) and isinstance(test.op, ast.Not):
            v = self.hook_test(test.operand, env, mod)
            return v if isinstance(v, Opaque) else not v
        if isinstance(test, ast.Compare) and len(test.ops) == 1 and isinstance(test.ops[0], (ast.In, ast.NotIn)) \
                and isinstance(test.left, ast.Constant) and isinstance(test.comparators[0], ast.Call) \
                and norm(test.comparators[0].func) == "vars" and len(test.comparators[0].args) == 1:
            c = self._eval(test.comparators[0].args[0], env, mod, None)
            if isinstance(c, ClassV):
                r = test.left.value in c.ns     # the class's own namespace
                return r if isinstance(test.ops[0], ast.In) else not r
        if isinstance(test, ast.Call) and norm(test.func) == "hasattr" and len(test.args) == 2 and isinstance(test.args[1], ast.Constant):
            c = self._eval(test.args[0], env, mod, None)
            if isinstance(c, ClassV):
                return c.has(test.args[1].value)  # looked up along the bases
        if isinstance(test, ast.Attribute) or isinstance(test, ast.Name):
            v = self._eval(test, env, mod, None)
            return v if isinstance(v, Opaque) else bool(v)
        try:
            return bool(self.pure(test, env, mod))
        except AnalysisError:
            return Opaque("unfoldable test")

    # pure-expression evaluator for the filter lambdas (constant folding of declarative code)
    def pure(self, node, env, mod):
        P = lambda n, e=env: self.pure(n, e, mod)  # noqa: E731
        if isinstance(node, ast.BoolOp):
            if isinstance(node.op, ast.And):
                v = True
                for x in node.values:
                    v = P(x)
                    if isinstance(v, Opaque):
                        raise AnalysisError(f"{mod.relpath}:{node.lineno}: cannot fold {norm(x)}: {v.reason}")
                    if not v:
                        return v
                return v
            v = False
            for x in node.values:
                v = P(x)
                if isinstance(v, Opaque):
                    raise AnalysisError(f"{mod.relpath}:{node.lineno}: cannot fold {norm(x)}: {v.reason}")
                if v:
                    return v
            return v
        if isinstance(node, ast.Compare) and len(node.ops) > 1:
            # a < b <= c  is  (a < b) and (b <= c)
            left = node.left
            for op, right in zip(node.ops, node.comparators):
                if not P(ast.copy_location(ast.Compare(left=left, ops=[op], comparators=[right]), node)):
                    return False
                left = right
            return True
        if isinstance(node, ast.Compare) and len(node.ops) == 1:
            a, b = P(node.left), P(node.comparators[0])
            op = node.ops[0]
            if isinstance(a, Opaque) or isinstance(b, Opaque):
                raise AnalysisError(f"{mod.relpath}:{node.lineno}: cannot fold {norm(node)}")
            if isinstance(op, (ast.In, ast.NotIn)):
                if not isinstance(b, TupleV):
                    raise AnalysisError(f"{mod.relpath}:{node.lineno}: `in` on non-tuple in {norm(node)}")
                r = any(a == x for x in b.items)
                return r if isinstance(op, ast.In) else not r
            ai, bi = as_int(a), as_int(b)
            if ai is None or bi is None:
                if isinstance(op, ast.Eq):
                    return a == b
                if isinstance(op, ast.NotEq):
                    return a != b
                raise AnalysisError(f"{mod.relpath}:{node.lineno}: cannot fold {norm(node)}")
            return {ast.Eq: ai == bi, ast.NotEq: ai != bi, ast.Lt: ai < bi, ast.LtE: ai <= bi,
                    ast.Gt: ai > bi, ast.GtE: ai >= bi}[type(op)]
        if isinstance(node, ast.Call) and isinstance(node.func, ast.Name) and node.func.id in ("all", "any", "len"):
            arg = node.args[0]
            if isinstance(arg, ast.GeneratorExp):
                vals = self.genexp(arg, env, mod)
            else:
                v = P(arg)
                if not isinstance(v, TupleV):
                    raise AnalysisError(f"{mod.relpath}:{node.lineno}: cannot fold {norm(node)}")
                vals = v.items
            if node.func.id == "len":
                return len(vals)
            if any(isinstance(x, Opaque) for x in vals):
                raise AnalysisError(f"{mod.relpath}:{node.lineno}: cannot fold {norm(node)}")
            return all(vals) if node.func.id == "all" else any(vals)
        if isinstance(node, ast.IfExp):
            return P(node.body) if P(node.test) else P(node.orelse)
        if isinstance(node, (ast.GeneratorExp, ast.ListComp)):
            try:
                return TupleV(self.genexp(node, env, mod))
            except AnalysisError as ex:
                return Opaque(str(ex)[:80])
        if isinstance(node, (ast.Compare, ast.BoolOp, ast.IfExp)):
            return Opaque("unfoldable " + norm(node)[:60])
        return self._eval(node, env, mod, None)

    def iter_items(self, it):
        """the elements iteration over a model value yields, or None: a tuple, a range, the members of an enum class in the
        order `for m in cls` gives them (inspect.getmembers: by name)"""
        if isinstance(it, TupleV):
            return list(it.items)
        if isinstance(it, RangeV) and it.stop - it.start <= 65536:
            return list(range(it.start, it.stop))
        if isinstance(it, DictV):
            return [k for k, _v, _n in it.items]
        if isinstance(it, ClassV) and it.has("__tpm_enum__"):
            return [v for _k, v in self.public_non_routine(it)]
        return None

    def genexp(self, node, env, mod, elt=None):
        """values of a generator expression / list comprehension (any number of `for` clauses, plain-name targets)"""
        out = []

        def rec(i, e):
            if i == len(node.generators):
                out.append(elt(e) if elt is not None else self.pure(node.elt, e, mod))
                return
            g = node.generators[i]
            items = self.iter_items(self.pure(g.iter, e, mod))
            if items is None:
                raise AnalysisError(f"{mod.relpath}:{node.lineno}: cannot iterate {norm(g.iter)}")

            def bind(tgt, x, e2):
                """plain names and (nested) tuples of names, as `for a, (b, c) in ...` binds them"""
                if isinstance(tgt, ast.Name):
                    e2[tgt.id] = x
                    return
                if isinstance(tgt, (ast.Tuple, ast.List)) and isinstance(x, TupleV) and len(tgt.elts) == len(x.items) \
                        and not any(isinstance(t_, ast.Starred) for t_ in tgt.elts):
                    for t_, x_ in zip(tgt.elts, x.items):
                        bind(t_, x_, e2)
                    return
                raise AnalysisError(f"{mod.relpath}:{node.lineno}: cannot bind {norm(tgt)} while iterating {norm(g.iter)}")
            for x in items:
                e2 = dict(e)
                bind(g.target, x, e2)
                if all(self.pure(c, e2, mod) for c in g.ifs):
                    rec(i + 1, e2)
        rec(0, dict(env))
        return out

    # -------------------------------------------------------------- queries
    def classes(self):
        """All ClassV bound at top level of spec modules: dict (module, name) -> ClassV
        (only the class *defined* in that module under that name)."""
        if self._classes is None:
            out = {}
            for mname, env in self.envs.items():
                for k, v in env.items():
                    if isinstance(v, ClassV) and v.module.name == mname and v.name == k:
                        out[(mname, k)] = v
            self._classes = out
        return self._classes

    def env(self, modname):
        e = self.envs.get(modname)
        if e is None:
            raise AnalysisError(f"anchor vanished: spec module {modname}")
        return e

    def get(self, modname, name):
        v = self.force(self.env(modname).get(name))
        if v is None or isinstance(v, Opaque):
            raise AnalysisError(f"anchor vanished: {modname}.{name} ({v!r})")
        return v


class Lazy:
    """`from M import a` - resolved when the name is first used (declarative code has no
    order dependence beyond def-before-use, so this reproduces any import order that works)."""

    def __init__(self, modname, attr):
        self.modname, self.attr = modname, attr


class BoundV:
    def __init__(self, func, self_):
        self.func, self.self = func, self_
