#!/bin/bash
# run all 20 quick checks against a tree (default /repo); print the ones that are not silent
repo=${1:-/repo}; shift
ev=$(mktemp -d /dev/shm/qa_XXXX)
for i in 01 02 03 04 05 06 07 08 09 10 11 12 13 14 15 16 17 18 19 20; do
  ( VERIF_REPO=$repo TPMSA_EVIDENCE_DIR=$ev /verif/check C$i > $ev/C$i.out 2>&1; echo $? > $ev/C$i.rc ) &
done; wait
for i in 01 02 03 04 05 06 07 08 09 10 11 12 13 14 15 16 17 18 19 20; do
  rc=$(cat $ev/C$i.rc); if [ "$rc" != 0 ]; then echo "== C$i rc=$rc"; grep -v "^  rule\|^OK\|^$" $ev/C$i.out | cut -c1-${WIDTH:-260} | head -${LINES_MAX:-6}; fi
done
rm -rf $ev
