#!/venv/bin/python
"""Regenerate MANIFEST.json from the table below (keeps it schema-valid at all times)."""
import json
import os

HERE = os.path.dirname(os.path.dirname(os.path.abspath(__file__)))

CHECKS = {
    "C17": dict(
        category="proof",
        text="M1 decides the mask clause exhaustively on the tables reconstructed from source: for all 12 "
             "attribute types every mask is non-zero, inside the word, pairwise disjoint and the masks cover "
             "2**(8*size)-1. M2 decides by def-use patterns that the accessor returns (value & mask) shifted by the "
             "mask's trailing zeros and that the printer emits one row per mask with value bits under mask ones. "
             "The per-value clause (shift result, dotted strings) is not decided.",
        note="trusted: CPython ast; E1 model of tpm_bitfield (guards G1/G5/G7 re-validated each run). Decides the "
             "table clause and the accessor/row shape, not concrete rendered strings.",
        technique="static table reconstruction (abstract evaluation of spec modules) + AST def-use patterns",
        design="4/C17",
    ),
    "C18": dict(
        category="proof",
        text="N1: TPM_RC.__format__ and TPM_RC.attributes are converted into decision trees by a symbolic walk of their "
             "bodies (masks folded from module constants, helpers checked to mean all-set/all-clear); all 3073 values of "
             "the low 12 bits in the property's domain are routed through both trees: the text-form leaf must equal the "
             "reference written from the statement, the bit rows must partition 0xFFFFFFFF and use the same table, index "
             "mask, number mask and shift as the text form. N2: the three name tables equal pinned/rc_tables.json, no "
             "duplicate keys. The whole domain is finite and enumerated.",
        note="trusted: CPython ast; constant folding of tpm_rc.py; dict/defaultdict lookup semantics. TPM 1.2-style "
             "codes (bits 7 and 8 clear) are outside the property's domain and not judged.",
        technique="symbolic path enumeration of the two classifier methods + exhaustive finite-domain comparison with a reference tree",
        design="4/C18",
    ),
    "C20": dict(
        category="proof",
        text="Exhaustive evaluation of coherence rules T1-T5 over all 248 structure types, Command/Response and "
             "the 4x117 area tables reconstructed from source, including dict-literal duplicate keys that are "
             "invisible at run time; T6 compares the canonical layout (field order, names, types, widths, "
             "signedness, valid sets, member names, masks, selector maps, TPM_CC, tables) with pinned/layout.json.",
        note="trusted: CPython ast; E1 model of tpm_dataclass/tpm_enum/tpm_bitfield, re-validated by guard rules G1-G7 "
             "on every run and cross-checked against runtime reflection at development time (selftest/fidelity.py, "
             "0 mismatches on 718 types). The pinned snapshot was generated from the tree after fixes F1/F7.",
        technique="static table reconstruction + exhaustive finite rule evaluation + pinned semantic snapshot diff",
        design="4/C20",
    ),
}

NA_DEFAULT = "check not built yet (framework under construction)"
NA = {}


def main():
    props = [json.loads(l) for l in open(os.path.join(HERE, "properties.jsonl"))]
    checks = []
    for p in props:
        pid = p["id"]
        c = CHECKS.get(pid)
        if not c:
            continue
        checks.append({
            "property_id": pid,
            "quick_cmd": f"./check {pid} --tier quick",
            "thorough_cmd": f"./check {pid} --tier thorough",
            "evidence_file": f"/verif/evidence/{pid}.json",
            "replay_cmd_template": "cat {path}",
            "engine": "tpmsa",
            "level_claimed": {"category": c["category"], "text": c["text"], "design_ref": "DESIGN.md section " + c["design"]},
            "level_note": c["note"],
            "technique": c["technique"],
        })
    m = {
        "version": 1,
        "setup_cmd": "true",
        "hooks": {
            "guard": "TPMSTREAM_VERIF",
            "enable": "no hooks: the checks parse /repo's working tree with ast and never import or run it",
            "baseline_off_cmd": "cd /repo && /venv/bin/python -m pytest -ra -q -p no:cacheprovider --timeout=900 --continue-on-collection-errors",
            "source_commits": [],
            "add_only": True,
        },
        "engines": [
            {"name": "tpmsa", "path": "/verif/tpmsa", "serves_properties": sorted(CHECKS),
             "kind_free_text": "repository-specific static analyser (CPython ast/symtable only): E1 abstract "
                               "evaluator of the spec tables, E2 CFG/typestate/def-use toolkit, E3 call graph and "
                               "failure-site ledger, E4 obligations/evidence"},
        ],
        "checks": checks,
        "notes": "Static analysis only. exit 0 ok / 1 VIOLATION / 2 ANALYSIS-ERROR. See DESIGN.md.",
        "not_applicable": [
            {"property_id": p["id"], "reason": NA.get(p["id"], NA_DEFAULT)} for p in props if p["id"] not in CHECKS
        ],
    }
    json.dump(m, open(os.path.join(HERE, "MANIFEST.json"), "w"), indent=1)
    print("checks:", [c["property_id"] for c in checks])


if __name__ == "__main__":
    main()
