#!/venv/bin/python
"""Regenerate MANIFEST.json from the table below (keeps it schema-valid at all times)."""
import json
import os

HERE = os.path.dirname(os.path.dirname(os.path.abspath(__file__)))

CHECKS = {
    "C01": dict(
        category="other",
        text="W0 the decode facets (field order, names, types, widths, signedness, selectors, selector->arm maps, list sizes, "
             "area tables, TPM_CC numbers) of all 719 types equal the pinned snapshot (exhaustive, includes the 93 types and 7 "
             "command codes the corpus never touches); W1 the dispatcher chain is evaluated as a decision list on every type "
             "descriptor (970 routes) and must agree with the type's kind, every TPM2B is (unsigned size, payload) and every "
             "TPMU has _selected_by; W2-W7 walker obligations by CFG dominance and def-use on abstract traces (width/order/"
             "signedness sources, container-first, declaration order, child paths, count/selector sources, union arm "
             "selection - W6 by specialising the struct walker on each of the ~150 struct layouts of L, W7 on the path summaries of "
             "the union walker); the primitive's own event is emitted exactly once on every completing path; encrypted() and "
             "is_list are folded over all 235 parameter areas / type shapes and the encrypted() substitution guard is evaluated "
             "on every dataclass of L; F framing by loop specialisation of the command/response walkers with L: fields decoded per (tag, "
             "response code) variant, area tables and keys, byte-sized session area, encryption flag provenance, header-only "
             "failed responses; W10 (= C05-E3) the pump's one silent return is restricted to the command/response stream, so no "
             "root event of a top-level decode is swallowed; W11 payload-kind table of the size-prefixed walker; W12 no discarded "
             "generators; W13 (= C04-V4) every member of a named range is a member. Event values for concrete bytes are not decided. W14 every walker hands (size, value) back on every completing path. W15 the pump hands type, root path, command code, encryption flag and mode to the dispatcher; F also: the response's encryption cross-check is evaluated only in variants that decode a session area. Round 7: W7 has a folding mode - when the arm is not looked up in an inverted copy of _selected_by the union walker is evaluated (tpmsa.minieval, sub-decodes stubbed) for every reachable union and every selector value of its table plus one outside it (109 cases); F compares the encryption request in its normal form (tpmsa.encreq). Round 8: W7 folds whenever the selection is not the pinned inverted table and evaluates project classes / memoised helpers the walker uses; the dispatcher is recognised through a classification tag and a walker table (normal form N31). W16 (= C04-V5) the valid-value facets of the snapshot (a value dropped from an allowed set makes strict decoding reject well-formed input).",
        note="trusted: CPython ast; E1 model (guards G1-G7); semantics of int.from_bytes, dataclasses.fields order and generators.",
        technique="pinned table snapshot + decision-list evaluation over all type descriptors + partial evaluation / def-use rules on the walkers",
        design="4/C01",
    ),
    "C02": dict(
        category="other",
        text="B1 reader/writer agreement: the decoder's (width, byte order, signedness) sources in the primitive walker and "
             "the encoder's resolved defaults and delegation chain (_INT.to_bytes -> value.to_bytes -> int.to_bytes) must "
             "name the same sources; B2/B3 shape of to_bytes(event)/unmarshal (info and `...` events -> b'', others -> "
             "event.value.to_bytes(), one-to-one in order - decided as a decision list on the path summaries of to_bytes, so the "
             "branch layout is irrelevant; every completed primitive decode emits its own event exactly once in both modes; "
             "a second reader idiom, in-place big-endian accumulation with two's-complement correction, is recognised and its "
             "threshold judged exactly); B4 nobody else defines to_bytes; B5 every valid set fits its "
             "width (exhaustive over 102 primitive types). These are necessary conditions of the round trip; byte equality "
             "on concrete inputs is a value clause and is not decided. B1 also as a guard table: which width / signedness reaches int.to_bytes under which outcome of `<param> is None`. B7 (= C04-V4): NamedRange.by_number(n) is the member with value n. B8 no generator of the decode core is created and discarded (= C01-W12 = C03-R9). B9 (= C07-NI-1) strict mode never turns a size error into a warning (an accepted input would then miss the skipped bytes). B10 (= C01-W0) the decode facets of the snapshot (a field re-encodes to the bytes at its own offset only if decoded with its declared width).",
        note="trusted: CPython ast; int.from_bytes/int.to_bytes are mutual inverses for equal (width, order, signedness).",
        technique="reader/writer agreement by def-use comparison + who-defines rule + exhaustive table check",
        design="4/C02",
    ),
    "C03": dict(
        category="other",
        text="R1: the framing walkers are loop-specialised with the field lists of Command/Response from L and all owner "
             "walkers are turned into abstract traces (create/register/arm/process/close) per variant (tag x response code x "
             "payload kind, 11 traces); on every trace each SizeConstraint is armed once with the value just decoded for its "
             "size field and that field's path, registered in the list the children receive, governs exactly the fields the "
             "statement says its size field measures (commandSize/responseSize: whole message; authSize: authorizationArea; "
             "parameterSize: parameters; TPM2B size: payload) and is closed on every normal exit or transferred to the "
             "byte-sized-array walker which closes it. R2 the charge dominates the first byte request in the primitive walker "
             "with the same size; R3 only the primitive walker and consume_bytes request bytes; R4 every recursive call "
             "threads size_constraints; R5 error construction sites/arguments and the accounting shape of the constraint "
             "classes; R6 counts are never tested by truthiness; R7 error details and skip amounts as linear forms; R8 outcome "
             "tables of bytes_parsed / assert_done over their path summaries (closed -> obsolete error; armed and counted + size > "
             "limit -> anticipated error / retire, skip the rest, exceeded error; close quiet iff counted == limit); R9 no "
             "generator of the decode core is created and discarded. Concrete sizes are not computed. R2 judges the effective anticipate_only of the charge site including the callee's default. R10 (= C01-F + C09-S3) the layout chosen for the parameter area follows the right session bit: the encryption flag of the first parameter in its normal form. Region methods that hand the skip to the driver as a request object are a protocol change that is not followed (analysis error, no verdict). R11 (= C07-NI-1) every handler of a size error re-raises it in strict mode. R12 (= C01-W0) the decode facets of all types (field lists, declared types, widths, element counts of union arms - what a field charges to its regions) equal the pinned snapshot.",
        note="trusted: CPython ast; L (E1). Comparisons on runtime integers are deliberately not pattern-matched.",
        technique="partial evaluation (loop specialisation) + typestate over abstract traces, CFG dominance, who-may-call rules",
        design="4/C03",
    ),
    "C04": dict(
        category="other",
        text="V1 primitive walker: the is_valid() test dominates the field's event; on its path summaries the outcome per "
             "(valid?, strict?) is: invalid+strict raises the constructed error before any event of the field, valid is "
             "neither warned about nor rejected, invalid+warn emits the event then exactly one warning wrapping the same error; "
             "no raise is reachable after the event; the error classes store the constraint/value they are given; V2 the error's path/type/value/valid "
             "set by def-use; V3 who-may-convert: int.from_bytes and raw byte requests occur only in the primitive walker; "
             "V4 the membership chain (_INT.is_valid, ValidValues.__contains__/get, NamedRange, enum class membership) has "
             "the membership meaning - decided as decision tables over path summaries, NamedRange as an abstract data type (the "
             "constructor's bindings substituted into the observers' conditions: member exactly for start <= n < end); V5 valid-value and naming facets of all 719 pinned types (exhaustive); V6 unknown "
             "command code -> ValueConstraintViolatedError with ValidValues(TPM_CC). The iff over concrete values is not decided. V6 also checks the declared type named by the unknown-command-code error. V7 (= C15-F1) every front-end hands the caller's options and the decoder's default mode on. V1's raise-after-event is judged per feasible path. V8 (= C01-W0) the decode facets of the snapshot: which allowed set a field is checked against is decided by its declared type. V6 also covers the union walker's value error (it carries the selector, declares type(selector), points at the union's path). V9 Canonical's own mode parameter defaults to strict and is handed to the front-end unchanged.",
        note="trusted: CPython ast; E1 model (guards G1-G7); 'first offending field' relies on C01-W4 ordering.",
        technique="CFG dominance + def-use + who-may-call rule + pinned valid-value tables",
        design="4/C04",
    ),
    "C05": dict(
        category="other",
        text="Typestate fixpoint over the CFG (with exception edges) of the byte pump marshal(): every return, raise and "
             "warning site is classified in every abstract state (look-ahead byte INIT/FRESH/SENT x depleted x last yield) "
             "that reaches it. E1: no return absorbs a pulled-but-unconsumed byte or a truncated input; the superfluous "
             "error carries look-ahead byte + rest of the iterator; leaving the pull loop always reports depletion. E2: both "
             "errors carry the running command code, assigned only from the <root>.commandCode event. E3: the silent "
             "end-of-input return is control dependent on the stream type, the depleted flag and a root event; the error "
             "classes store exactly the surplus bytes / command code they are given (path summaries of their constructors). Decides the "
             "shape of the pump on all paths, not which events precede the error for a concrete truncation point. Also: the running command code is captured; boundary test polarity; handler exits of the pump (a finished processor is never resumed, constraint errors are re-raised on every path). E1 also: every superfluous error is given the surplus bytes; E3 accepts the boundary test by event type for exactly {Command, Response}. E4 (= C01-W0) the decode facets of the snapshot (a table entry that is too small absorbs a truncation). E5 Canonical's own mode parameter defaults to strict and is handed to the front-end unchanged (the errors are raised, not wrapped, for a caller who says nothing).",
        note="trusted: CPython ast; generator send/StopIteration semantics; processor protocol (C10-T1). The events emitted "
             "before the error (value clause) are not decided.",
        technique="CFG + typestate abstract interpretation (path-sensitive on depleted flag / look-ahead byte), def-use, control dependence",
        design="4/C05",
    ),
    "C06": dict(
        category="other",
        text="X1 failure-site ledger over the 64 functions of the decode core: all 70+ explicit failure sites (25 asserts, 19 "
             "raises, 2 unbound names) and implicit-failure idioms from a closed list (next(genexp), subscripts of values / "
             "_selectors / _type_maps / _list_size / selection / types_map / __args__, [..][i] on a built list, 2-target unpacking "
             "of fields(T), iteration over an optional parameter) must be a raise of a documented class, caught locally or at "
             "every call site, dead by its own guard, or discharged by a rule re-evaluated on the current tree from L "
             "(C20 T1-T5, W1), the specialised traces (C03-R1, C01-F), the pump typestate (C10-T1) or call-site shapes; an "
             "undischarged site is reported with its input dependence; encrypted() is folded over all parameter areas of L and "
             "must not raise on any; X3 every resolvable call in the decode core matches its callee's signature. X2 termination: acyclic type graph, messages and "
             "byte-sized list elements consume >= 1 byte, only bounded data-driven loop forms, one pull per pump iteration. X5: no read of a local that no assignment reaches, no name bound nowhere (symtable), in the decode core; one handler proven unreachable for command codes in TPM_CC is not judged (DESIGN 4, round-6 note). X6 (= C19-L4) the type search decodes a Response only with members of TPM_CC (what the exemption of the unknown-command-code handler rests on). X7 every member of every layout class has a type the decoder can walk (a non-type annotation is kept by the model as such and reported).",
        note="trusted: CPython ast; L (E1). Implicit failures outside the closed idiom list (e.g. a TypeError from an operator on "
             "an unexpected object) are not excluded - no untyped-Python static analysis can. Open finding K2 is listed in "
             "known_findings.json. Assumes the command_code argument is a TPM_CC member.",
        technique="exception-escape / failure-site ledger with rule-based discharge over the call graph + termination obligations from the static layout model",
        design="4/C06",
    ),
    "C07": dict(
        category="other",
        text="Non-interference of the mode flag, decided on source: NI-1 classifies every read of abort_on_error in the "
             "decode core as a keyword pass-through or a raise-vs-wrap mode test whose strict branch is exactly `raise e` "
             "with e bound (constructed or caught) on every path; NI-2 every call to a function with the parameter threads "
             "it unchanged (36 sites); NI-3 on every CFG path from a mode test's false edge the first thing yielded is "
             "WarningEvent(error=e) with the same e (only the offending primitive's own event may precede it), and no "
             "WarningEvent is constructed anywhere else. Hence both modes execute the same statements on the same data up "
             "to the first error object - the property's core, for all inputs. NI-4 (= C02-B3) for an out-of-range value the offending event is emitted first, then the warning: on every completed path of the primitive walker. NI-1 accepts a mode test nested under an existence test of the error; the warning-site count is an upper bound. NI-5 (= C08-Y2) an owner of a region recovers exactly from overruns of its own regions and re-raises the others.",
        note="trusted: CPython ast; error objects are truthy; method calls resolved by receiver constructor (over-approximated "
             "when unknown). Which events are emitted is not decided, only that the two runs coincide.",
        technique="information-flow / non-interference lint + CFG path search from each mode test",
        design="4/C07",
    ),
    "C08": dict(
        category="other",
        text="Y1 warn-mode variant of the failure-site ledger (strict-only raises removed; allowed aborts = the two command-code "
             "lookups and the union no-member branch; overruns travel to their owner); Y2 owner-catch on the specialised traces: "
             "every decode made while an owner's region is live is inside its SizeConstraintExceededError handler, whose "
             "paths (summaries from the handler on) re-raise iff strict or a foreign region and otherwise yield exactly one warning "
             "wrapping the caught error and return - however the handler is written, also when it lives in an extracted generator "
             "helper (TPM2B byte payload exempt, justified from L); Y3 recovery Nones are tested before iteration; Y4 recovery bookkeeping (padding charged "
             "to enclosing regions, nested regions retired, check-before-charge, skip amounts); Y5 completion of the processor on "
             "a byte send handled by the pump. These are necessary structural conditions; the byte tiling itself is not decided. Y8 (= C15-F1) extra keyword arguments and the default mode reach the decoder through every front-end. Y9 (= C04-V6, union part) the value error for a selector that selects no member is built from the selector itself.",
        note="trusted: CPython ast; L (E1). Eight open findings (K2, K6a, K6b x4 owners, K6c, K8) are genuine defects recorded in "
             "known_findings.json with witnesses in findings/repro_warn_mode.py; they need a redesign of the region bookkeeping / "
             "pump exit logic and are not repaired.",
        technique="exception-escape ledger (warn-mode variant) + owner-catch rule over abstract traces + structural recovery-bookkeeping rules",
        design="4/C08",
    ),
    "C09": dict(
        category="other",
        text="S1/S2 def-use on the abstract trace of the stream walker: the response decode receives `.commandCode` of the "
             "command object decoded in the same iteration and `is_parameter_encryption(<that command>, for_response=True) or "
             "None`; S3 is_parameter_encryption reads encrypt for responses and decrypt for commands over every session, both "
             "being TPMA_SESSION masks in L; S4 command then response at the stream's root path, mode threaded, no own "
             "termination; S5 separate_events cuts exactly at root-path MarshalEvents and events_to_objs alternates and carries "
             "the command code into exactly the next message (decision lists on the path summaries of one loop iteration); S6 = "
             "C05-E3: a stream ends silently only at a message boundary. Equality of concatenated event lists is not decided. S6 also requires that the silent end-of-stream return exists. S5 also recognises the index-slicing form of separate_events (starts at root events, last slice to the end). S2/S3 judge the encryption request in a normal form (tpmsa.encreq): whatever functions, methods or keyword bundles compute it are evaluated symbolically to (value without session area, value when a session sets the bit, value when none does) for one area and one bit; required (None, True, None) on the command's own area with `encrypt`. S7 (= C07-NI-2) the mode flag is handed down on every call from the pump to the message walkers. S8 (= C15-F5) front-ends that cut a capture into messages take the boundaries from the header's size field and drop nothing but runts below the header size. S9 (= C15-F6) the swtpm-log scanner makes one message of every SWTPM_IO record.",
        note="trusted: CPython ast; C01-W5 (child paths extend the parent) for the unambiguity of the cut.",
        technique="def-use on abstract traces (partial evaluation) + shape rules on the pairing helpers",
        design="4/C09",
    ),
    "C10": dict(
        category="other",
        text="T1: pump typestate - next(source) is executed only while no unconsumed byte is held, send(byte) only with a "
             "fresh byte and only when the processor asked for one, send(None) only after an event; every use of the source "
             "iterator is the canonical one-byte pull or a remaining-bytes attach; the primitive walker emits its event "
             "with no byte request in between. T2: the buffer parameters of the pump and of the three lazy front-end "
             "scanners are used only through iter()/next() (except inside raise). T3: the processor never receives the "
             "buffer or iterator. T6: a scanner starts one traversal of its raw source only (bytes / lists restart). T5 (= C05-E3): the empty prefix of a non-stream decode reports depletion like every other "
             "prefix. This is the structural core of the property; concrete pull counts are its dynamic view. T6 also: next() only on an iterator made from the source (never on the raw parameter). T7 (= C15-F11): a character obtained with next(it, default) reaches int(..., 16) only where the default was excluded. T2 also covers the front-end functions (hex / swtpm / auto marshal): no pre-read or materialisation of the caller's source. T8 no closure made in a loop over the sources reads its loop variable late (every reader would read the last source). T9 (= C19-L12) the file reader hands out every file to its end; T10 (= C03-R4) a decode starts from its own region list. T11 (= C11-A6 = C12-P2) the memo of the synthesised parameter-area type never evicts. T12 the file reader's test on `<file>.mode` holds for 'r' (sys.stdin, open(path): read through .buffer) and not for 'rb'. T13 (= C15-F5) the Auto detector hands back the bytes it looked at for every format it announces.",
        note="trusted: CPython ast; Python iterator/generator protocol. pcapng.marshal materialises its input by design (documented in the code) and is outside T2.",
        technique="CFG + typestate abstract interpretation of the pump, who-may-use rules on iterator/buffer variables",
        design="4/C10",
    ),
    "C11": dict(
        category="other",
        text="A1 the names obj_to_events hides when None equal the fields the framing walkers can omit (computed from the "
             "specialised traces), and no nullable field elsewhere in L shares such a name; A2 its union name test coincides "
             "with `has _selected_by` on all 616 dataclasses of L; A3 shapes/order/paths of the events it builds equal the "
             "decoder's; A4 both directions build tpm_type(**values) by field name, resolve area layouts through the decoder's "
             "tables and keys, recognise encrypted areas by TPM2B_ENCRYPTED_PARAM's field names, remember a Response's command "
             "code; A5 sibling rule: every node the decoder announces with an event but returns as None is mapped to None by "
             "the events->object builder too; A7 (= C01-W7) a union arm without payload decodes to None. A1-A5 are decided on path summaries (hidden / marker / list parent / value per field "
             "as a decision list), not on the text of the branches. These are necessary conditions; the round trips themselves are not decided. A8: no unbound local / undefined name in common/object.py. A9 (= C19-L9 = C15-F2) every front-end returns the decoder's result; A2 folds the union test of obj_to_events over every layout class; A4 finds the member-type resolver by role (closure or function handed the caller's variables). A1's set of invisible members may be any literal collection. A10 (= C09-S5) the objects of a stream are rebuilt message by message with the pairing of C09. A11 (= C01-F) per tag / response code the message walkers decode exactly the fields the layout has for that case (absent areas emit nothing). A12 the slots Canonical's constructor fills from its input are assigned later only where they are known to be empty (a Canonical built from an object keeps it).",
        note="trusted: CPython ast; L (E1); dataclass equality semantics.",
        technique="agreement (sibling) rules between decoder traces, the static layout model and the two converters",
        design="4/C11",
    ),
    "C12": dict(
        category="other",
        text="P1 effect analysis of all functions reachable from the decode / conversion entry points (call graph with "
             "method-name resolution, ~70 functions): no global/nonlocal, no attribute/item store or mutating call whose "
             "receiver is a module-level or class-level object; P2 every memoising decorator in reachable code is unbounded or "
             "has capacity >= the key space from L (234 parameter areas); P3 no mutable defaults, no module-level "
             "generators/iterators; P5 (= C09-S2) nothing the response decode of a stream is given is left over from an earlier pair. "
             "Together with Python's determinism this is the property's structural core. P4: no caller mutates the result of a memoised function (checked on the unmodified source). P6 a mutable container written in a class body is not mutated through an instance that has no copy of its own; P7 (= C17-M3) a cache keyed by a layout value is typed. P8 (= C09-S3) the stream's encryption predicate answers for the command's own session area with the response direction's bit. P9 (= C15-F1) the arguments reach the decoder on every branch of every front-end. P10 (= C01-F) the encrypted layout is chosen for an area exactly when a session of that message asks for it in that direction.",
        note="trusted: CPython ast; call resolution by name over repo classes (over-approximation); a module-level instance of a "
             "repo class is followed through one local alias and through methods that return self, deeper aliasing is not tracked.",
        technique="call-graph reachability + effect (purity) analysis + memoisation capacity check against the static layout model",
        design="4/C12",
    ),
    "C13": dict(
        category="other",
        text="At each site of the pump that attaches remaining bytes to a ConstraintViolatedError, the attached expression "
             "is resolved (def-use, path-sensitive on the depleted flag) in every abstract state reaching it and must be "
             "exactly 'look-ahead byte iff FRESH, then the iterator'; every re-raise attaches to the same error first; "
             "the overrun error is raised only after consume_bytes(size_max - size_already), in both modes. A3 also: no input is consumed on any path to an anticipated overrun error. A5 (= C07-NI-1) a caught constraint error is re-raised in strict mode, not wrapped. A6 (= C04-V1) no event of the rejected field precedes the strict value error (the bad field is not also among the emitted fields). A1 decides and / or tests with one decided operand; where the choice between two definitions of the attached bytes depends only on parameters of the pump, every alternative must be right.",
        note="trusted: CPython ast; itertools.chain/bytes semantics. The byte equation on concrete inputs is not decided.",
        technique="typestate abstract interpretation + path-sensitive reaching definitions at the attach sites",
        design="4/C13",
    ),
    "C14": dict(
        category="other",
        text="Q1 must-dataflow over the CFGs of both printers: every read of .type/.path/.value on an item of the event "
             "stream is dominated by isinstance(_, MarshalEvent) (or guarded at every call site of the helper); Q2 typestate "
             "HELD/DISPOSED of every event pulled by the list folder and the main loop: disposed exactly once on every path "
             "(printed, folded into the single byte row, or handed back), never overwritten while held, list parent shown iff "
             "no element rows; Q3 from L (exhaustive, 44 byte-list fields): every 1-byte list element type is BYTE and every "
             "byte-list parent directly follows its count/size primitive or the union container, so the event handed back by "
             "the folder never needs folding; Q4 row shape: indentation len(path)-1, value text form, hex column = binary "
             "re-encoding of that event (the row is compared as a function of the two column conditions on path summaries, colour "
             "codes stripped, nested f-strings and str.join flattened), attribute rows only from the main loop with path+PathNode(attr). The rendered text "
             "is not decided. Q5 list folding mode by element type, one membership test (same enclosing path and field name), empty-list flag, the folder pulls; Q6 no unbound local / undefined name in the printers. Q7 no discarded generators in the printers; Q8 the byte buffer's translation table (folded) maps every byte to printable ASCII. Q6 also walks TPM_RC.__format__ / attributes() path by path (the symbolic walk of C18): a local read on a path that never assigned it is an UnboundLocalError for the codes of that path. Q9 (= C17-M2 accessor fold): the text form lists a field exactly when its accessor gives a non-zero number; Q4 falls back to the row fold of C17-M2 when attribute rows are not built in place. Q10 (= C17-M2, rows) the rows built in place are folded over every attribute type as well: one row per mask, value bits under the mask's ones, full width. Q11 PathNode.__str__ evaluated for index None, 0, 1, 2 gives four different texts (a list, its first element and the others are told apart). Q12 (= C16-O4) the text of a handle-range member is the range's name and the offset in the documented number of hex digits.",
        note="trusted: CPython ast; L (E1); C02-B2 for the hex column's content.",
        technique="must-dataflow (guard dominance) + typestate over the printer CFGs + FOLLOW-set facts from the static layout model",
        design="4/C14",
    ),
    "C15": dict(
        category="other",
        text="(F1-F3, F5-F7 are decided on path summaries.) F1 every completing path of every front-end function and facade forwards tpm_type, root_path, command_code, **kwargs and its own byte "
             "stream down to Binary.marshal (50 argument obligations); F2 sibling agreement: all front-ends return the "
             "delegated generator's value; F3 every int(x, 16) sees only bytes tested against a hex alphabet (dominating "
             "test or chain-guarded accumulation); F4=C10-T2 laziness; F5 pcapng size slice / runt threshold recomputed from "
             "the Command/Response header layout in L, trimming never extends, auto magic = pcapng SHB prefix, look-ahead "
             "bytes re-yielded, dispatch table; F6 swtpm scanner: the transition table (state x input class -> next state, pending "
             "digit, marker progress, emitted byte, end) is extracted from the summaries of one loop iteration and compared with "
             "the documented machine; F7 an input ending inside a digit pair raises ValueError in both text scanners. "
             "Language equivalence of the two text scanners with the documented formats and dpkt's parsing are not decided. F8 transition table of the hex scanner (two-pending-characters form), F9 decision table of the format detector and lenient default, F5 packet loop / payload source / unwrap loop, F10 no unbound local / undefined name in the front-ends. F11 end-of-input defaults of next(it, default) are excluded before a hex conversion; the swtpm / hex transition tables are applied only to a scanner in the form they are stated over (otherwise an info line, the form-independent rules remain).",
        note="trusted: CPython ast; L (E1); dpkt. The scanner automata are not explored (that would be model checking).",
        technique="sibling agreement (delegation/return) + dominance of validation tests + constants recomputed from the static layout model + state-machine shape lint",
        design="4/C15",
    ),
    "C16": dict(
        category="other",
        text="O1 operator table: each of the 26 binary/reflected, 6 comparison, divmod pair, __int__/__index__/__hash__ "
             "slots of numeric() is defined, installed under its own name and applies the operator its name denotes to "
             "int(self) and other in the order its reflectedness denotes; O2=B1 byte form sources; O3 width table of all "
             "primitive types from L (INTn/UINTn sizes, signs, full ranges; nobody else redefines width/sign); O4 NamedRange "
             "half-open, name = basename.sep.zero-padded hex offset, enum text = Type.member; O5=V4 validity is membership; "
             "O6 member names/values equal the pinned snapshot. Per-value behaviour is not decided.",
        note="trusted: CPython ast and the semantics of Python's int operators.",
        technique="sibling/name-vs-body agreement over the operator table + table checks from the static layout model",
        design="4/C16",
    ),
    "C17": dict(
        category="proof",
        text="M1 decides the mask clause exhaustively on the tables reconstructed from source: for all 12 "
             "attribute types every mask is non-zero, inside the word, pairwise disjoint and the masks cover "
             "2**(8*size)-1. M2 evaluates the accessor Bit.__get__ (abstractly, nothing of the repository runs) for every mask "
             "of every attribute type with the register value symbolic - each bit a symbol, case split where the code branches "
             "on a bit - and requires the wiring (value & mask) >> trailing_zeros(mask) for all values at once; the printer "
             "emits one row per mask with value bits under mask ones. The rendered strings for concrete values are not decided. M2 also: the decorator attaches attributes() and returns the class. M2 also: masks are sorted by a key. M2 accepts accessor(name, mask[, cls]) installed from a nested or module-level class; division by a power of two, `x & -x` and one-bit digit tests are exact on symbolic bit vectors. M3 a memoised function keyed by a layout value is `typed=True` (values of different types with the same number compare and hash alike); accessors may be built first and installed in a second loop, attributes() may read a class-level table of prepared named masks.",
        note="trusted: CPython ast; E1 model of tpm_bitfield (guards G1/G5/G7 re-validated each run). Decides the "
             "table clause and the accessor/row shape, not concrete rendered strings.",
        technique="static table reconstruction (abstract evaluation of spec modules) + bit-vector abstract evaluation of the accessor + AST def-use patterns",
        design="4/C17",
    ),
    "C18": dict(
        category="proof",
        text="N1: TPM_RC.__format__ and TPM_RC.attributes are converted into decision trees by a symbolic walk of their "
             "bodies (masks folded from module constants, helpers checked to mean all-set/all-clear); all 3073 values of "
             "the low 12 bits in the property's domain are routed through both trees: the text-form leaf must equal the "
             "reference written from the statement, the bit rows must partition 0xFFFFFFFF and use the same table, index "
             "mask, number mask and shift as the text form. N2: the three name tables equal pinned/rc_tables.json, no "
             "duplicate keys. The whole domain is finite and enumerated. N1 evaluates helper functions / methods of TPM_RC symbolically (division by a power of two = shift). The walker models module-level Enum members, comparisons through conditional values, rows appended with += / extend, symbolic row masks and arbitrary integer arithmetic on the enumerated low 12 bits (computed per code); a local read on a path that never assigned it is an outcome, not an analysis error. Name tables may be table objects (rows flattened into a tuple, `rows[code & mask]`): N2 requires one row per code number the mask can produce. N3 the printer's row shows the details text attributes() attached to it (pretty_attrs folded by the mini interpreter over a word with one classified and one plain row).",
        note="trusted: CPython ast; constant folding of tpm_rc.py; dict/defaultdict lookup semantics. TPM 1.2-style "
             "codes (bits 7 and 8 clear) are outside the property's domain and not judged.",
        technique="symbolic path enumeration of the two classifier methods + exhaustive finite-domain comparison with a reference tree",
        design="4/C18",
    ),
    "C19": dict(
        category="other",
        text="Necessary structural conditions only, decided on the path summaries of convert / fuzzy_match / main / the type "
             "search / the example loop (so helper extraction and branch layout are irrelevant): L1 argparse choices equal the keys of the dispatch dicts and each key maps "
             "to the front-end/printer of its name; L2 every refusal path returns a non-zero constant after a stderr message, "
             "the normal end returns 0, main exits with the sub-command's status; L3 convert hands type, command code, the file "
             "bytes and warn mode to the selected front-end and prints every item the selected printer yields (hex for bytes) "
             "with no cut in the loop; L4 the type search decodes strictly and catches exactly the documented error classes; "
             "L5 example output is under the command-code filter / exact-type selection and rendered from one event list. The "
             "statement's observable (stdout / exit status of a process) is not decided. L2 the suggestion lookup cannot fail; L7 an eager Canonical has decoded inside its constructor with the arguments it was given, `type` lists the decoded type name (responses with their command code); L6 no unbound local / undefined name. L8 cc_name folded over all command codes gives the member's name; L7 also checks the plumbing of the type listing. L9 (= C15-F2) every front-end returns the decoder's result; L4 folds the tests on the candidate type over the layout's type listing (stream type and unions skipped, Response with every command code). L11 (= C11-A1) the members a message may lack are exactly those the object-to-events conversion leaves out; L4 follows candidate generators and command-code name tables; L7 accepts any whole-content read of args.file through a reader of tpmstream.io. L12 the file reader of tpmstream.io has no return inside and no break out of its loop over the files. L13 (= C15-F1) the options convert passes reach the decoder on every branch of every front-end. L14 (= C02-B2) the binary encoder skips events without a value before it looks at one (--out binary in warn mode). L15 (= C15-F5) the pcapng cutter drops nothing but runts below the header size; L16 (= C10-T12) standard input (a text-mode file) is read through its byte buffer. L17 (= C14-Q1) the printers read path / type / value of a stream item only where it is known to be a MarshalEvent (--out events / pretty on a warn-mode decode).",
        note="weakest claim: shape of __main__.py only; trusted: argparse semantics.",
        technique="table agreement + decision lists over path summaries of the CLI functions",
        design="4/C19",
    ),
    "C20": dict(
        category="proof",
        text="Exhaustive evaluation of coherence rules T1-T5 over all 248 structure types, Command/Response and "
             "the 4x117 area tables reconstructed from source, including dict-literal duplicate keys that are "
             "invisible at run time; T6 compares the canonical layout (field order, names, types, widths, "
             "signedness, valid sets, member names, masks, selector maps, TPM_CC, tables) with pinned/layout.json; T7 the table "
             "of all types holds one class object per type name. T8 (= C01-W7) the selector -> member mapping the decoder uses is the pinned one; lookup tables (_selectors, _selected_by, _list_size) are compared up to entry order (for _selected_by: up to the order among different selector values).",
        note="trusted: CPython ast; E1 model of tpm_dataclass/tpm_enum/tpm_bitfield, re-validated by guard rules G1-G7 "
             "on every run and cross-checked against runtime reflection at development time (selftest/fidelity.py, "
             "0 mismatches on 718 types). The pinned snapshot was generated from the tree after fixes F1/F7.",
        technique="static table reconstruction + exhaustive finite rule evaluation + pinned semantic snapshot diff",
        design="4/C20",
    ),
}

NA_DEFAULT = "check not built yet (framework under construction)"
NA = {}  # every property is claimed


def main():
    props = [json.loads(l) for l in open(os.path.join(HERE, "properties.jsonl"))]
    checks = []
    for p in props:
        pid = p["id"]
        c = CHECKS.get(pid)
        if not c:
            continue
        checks.append({
            "property_id": pid,
            "quick_cmd": f"./check {pid} --tier quick",
            "thorough_cmd": f"./check {pid} --tier thorough",
            "evidence_file": f"/verif/evidence/{pid}.json",
            "replay_cmd_template": "cat {path}",
            "engine": "tpmsa",
            "level_claimed": {"category": c["category"], "text": c["text"], "design_ref": "DESIGN.md section " + c["design"]},
            "level_note": c["note"],
            "technique": c["technique"],
        })
    m = {
        "version": 1,
        "setup_cmd": "true",
        "hooks": {
            "guard": "TPMSTREAM_VERIF",
            "enable": "no hooks: the checks parse /repo's working tree with ast and never import or run it",
            "baseline_off_cmd": "cd /repo && /venv/bin/python -m pytest -ra -q -p no:cacheprovider --timeout=900 --continue-on-collection-errors",
            "source_commits": [],
            "add_only": True,
        },
        "engines": [
            {"name": "tpmsa", "path": "/verif/tpmsa", "serves_properties": sorted(CHECKS),
             "kind_free_text": "repository-specific static analyser (CPython ast/symtable only): E1 abstract "
                               "evaluator of the spec tables, E2 CFG/typestate/def-use toolkit, E3 call graph and "
                               "failure-site ledger, E4 obligations/evidence, E5 refactoring-tolerant normal form "
                               "(helper inlining etc. against a pinned shape), path summaries with decision lists, "
                               "folding of table-manipulating functions over table data"},
        ],
        "checks": checks,
        "notes": "Static analysis only. exit 0 ok / 1 VIOLATION / 2 ANALYSIS-ERROR. See DESIGN.md.",
        "not_applicable": [
            {"property_id": p["id"], "reason": NA.get(p["id"], NA_DEFAULT)} for p in props if p["id"] not in CHECKS
        ],
    }
    json.dump(m, open(os.path.join(HERE, "MANIFEST.json"), "w"), indent=1)
    print("checks:", [c["property_id"] for c in checks])


if __name__ == "__main__":
    main()
