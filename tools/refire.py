#!/venv/bin/python
"""Re-run all 20 checks against every seeded regression (patch applied to a scratch copy of /repo/src) and refresh the
`checks` entry of its meta.json, fired.txt and check_<property>.txt.  The demonstration and the test-suite result recorded
at confirmation time are not touched."""
import glob, json, os, shutil, subprocess, sys, tempfile
from concurrent.futures import ThreadPoolExecutor
HERE = os.path.dirname(os.path.dirname(os.path.abspath(__file__)))
ALL = [f"C{i:02d}" for i in range(1, 21)]


def one(meta):
    d = os.path.dirname(meta)
    m = json.load(open(meta))
    tmp = tempfile.mkdtemp(prefix="refire_", dir="/dev/shm")
    try:
        shutil.copytree("/repo/src", os.path.join(tmp, "src"), ignore=shutil.ignore_patterns("__pycache__", "*.pcap", "*.pyc"))
        r = subprocess.run(["git", "apply", "--unsafe-paths", "--directory", tmp, os.path.join(d, "patch.diff")], cwd=tmp,
                           capture_output=True, text=True)
        if r.returncode:
            return m["id"], "PATCH DOES NOT APPLY"
        fired = []
        for c in ALL:
            env = dict(os.environ, VERIF_REPO=tmp, TPMSA_EVIDENCE_DIR=os.path.join(tmp, "_ev"), PYTHONDONTWRITEBYTECODE="1")
            p = subprocess.run([os.path.join(HERE, "check"), c], env=env, cwd=HERE, capture_output=True, text=True)
            if p.returncode:
                fired.append(f"{c}(rc={p.returncode})")
                if c == m["property"]:
                    lines = [l[:300] for l in (p.stdout + p.stderr).splitlines()
                             if not l.startswith(("  rule", "[C", "  info", "KNOWN-FINDING"))][:4]
                    open(os.path.join(d, f"check_{c}.txt"), "w").write("\n".join(lines) + "\n")
        txt = "checks that fired: " + " ".join(fired)
        open(os.path.join(d, "fired.txt"), "w").write(txt + "\n")
        m["checks"] = txt
        m["caught_by_target_property"] = f"{m['property']}(rc=1)" in txt
        json.dump(m, open(meta, "w"), indent=1)
        return m["id"], txt
    finally:
        shutil.rmtree(tmp, ignore_errors=True)


metas = sorted(glob.glob(os.path.join(HERE, "seeded", "*", "meta.json")))
import sys as _sys
if _sys.argv[1:]:   # optional filters: substrings of the seed id
    metas = [m for m in metas if any(a in os.path.basename(os.path.dirname(m)) for a in _sys.argv[1:])]
with ThreadPoolExecutor(max_workers=8) as ex:
    for sid, txt in ex.map(one, metas):
        print(sid, txt)
