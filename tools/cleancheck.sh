#!/bin/bash
# all 20 quick checks on the unchanged tree must exit 0 (run before every commit)
bad=0
for i in 01 02 03 04 05 06 07 08 09 10 11 12 13 14 15 16 17 18 19 20; do
  ( /verif/check C$i > /dev/shm/cc_$i.txt 2>&1; echo $? > /dev/shm/cc_$i.rc ) &
done; wait
for i in 01 02 03 04 05 06 07 08 09 10 11 12 13 14 15 16 17 18 19 20; do
  rc=$(cat /dev/shm/cc_$i.rc); if [ "$rc" != 0 ]; then bad=1; echo "C$i rc=$rc"; grep -v "^  rule\|KNOWN" /dev/shm/cc_$i.txt | tail -3 | cut -c1-300; fi
done
[ $bad = 0 ] && echo "clean tree: all 20 checks exit 0"
exit $bad
