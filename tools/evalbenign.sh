#!/bin/bash
# usage: evalbenign.sh <id> <worktree-dir>   - a behaviour-preserving refactoring must leave all 20 checks silent
set -u
id=$1; wt=$2
out=/verif/seeded/benign/$id; mkdir -p $out; rm -f $out/check_*.txt
cp $wt/_seed/patch.diff $out/patch.diff; cp $wt/_seed/notes.md $out/notes.md 2>/dev/null; cp $wt/_seed/equiv.py $out/equiv.py 2>/dev/null
sc=$(mktemp -d /tmp/benchk_XXXX); rmdir $sc; git -C /repo worktree add -q $sc HEAD
( cd $sc && PYTHONPATH=$sc/src timeout 300 /venv/bin/python $out/equiv.py > $out/equiv_original.txt 2>&1; echo "equiv on original rc=$?" )
git -C $sc apply $out/patch.diff || { echo "PATCH DOES NOT APPLY"; git -C /repo worktree remove --force $sc; exit 1; }
( cd $sc && PYTHONPATH=$sc/src timeout 300 /venv/bin/python $out/equiv.py > $out/equiv_changed.txt 2>&1; echo "equiv on changed rc=$?" )
cmp -s $out/equiv_original.txt $out/equiv_changed.txt && echo "equiv outputs IDENTICAL" || echo "equiv outputs DIFFER"
( cd $sc && PYTHONPATH=$sc/src /venv/bin/python -m pytest -q -p no:cacheprovider -n 12 --continue-on-collection-errors 2>&1 | tail -1 ) | tee $out/tests_changed.txt
fired=""
for c in C01 C02 C03 C04 C05 C06 C07 C08 C09 C10 C11 C12 C13 C14 C15 C16 C17 C18 C19 C20; do
  VERIF_REPO=$sc TPMSA_EVIDENCE_DIR=$sc/_ev /verif/check $c > $sc/_$c.log 2>&1; rc=$?
  if [ $rc -ne 0 ]; then fired="$fired $c(rc=$rc)"; grep -v "^  rule\|^\[C\|^  info\|KNOWN-FINDING" $sc/_$c.log | cut -c1-330 | head -5 > $out/check_$c.txt; fi
done
echo "checks that fired (should be none):$fired" | tee $out/fired.txt
for f in $out/check_*.txt; do [ -f $f ] && { echo "--- $f"; cat $f; }; done
git -C /repo worktree remove --force $sc
