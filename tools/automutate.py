#!/venv/bin/python
"""Systematic first-order mutants of the functions whose rules are stated over path summaries.

For every listed (module, function, properties) the function's syntax tree is mutated one node at a
time (negate a branch test, swap and/or, swap a comparison operator, replace a constant, drop a
statement, swap the arms of a conditional expression), the module is re-emitted with ast.unparse
into a scratch copy of /repo/src, and the listed checks are run on it.  A mutant *survives* if every
listed check exits 0.  Survivors are printed for triage (equivalent mutants and mutants that change
something the property does not speak about - message texts, colours - are expected).

usage: automutate.py [filter-substring]      (development tool, not part of any registered check)
"""
import ast
import copy
import os
import shutil
import subprocess
import sys
import tempfile
from concurrent.futures import ThreadPoolExecutor

HERE = os.path.dirname(os.path.dirname(os.path.abspath(__file__)))
T = "tpmstream"
TARGETS = [
    (f"{T}/io/binary/unmarshal.py", "to_bytes", ["C02"]),
    (f"{T}/io/binary/unmarshal.py", "unmarshal", ["C02"]),
    (f"{T}/common/object.py", "separate_events", ["C09"]),
    (f"{T}/common/object.py", "events_to_objs", ["C09"]),
    (f"{T}/common/object.py", "obj_to_events", ["C11"]),
    (f"{T}/common/object.py", "_to_obj", ["C11"]),
    (f"{T}/common/object.py", "_dict_to_obj", ["C11"]),
    (f"{T}/common/object.py", "events_to_obj", ["C11"]),
    (f"{T}/spec/commands/params_common.py", "TPMS_PARAMS.is_encrypted_params", ["C11"]),
    (f"{T}/spec/commands/params_common.py", "TPMS_PARAMS.encrypted", ["C01"]),
    (f"{T}/common/util.py", "is_list", ["C01"]),
    (f"{T}/io/pretty/unmarshal.py", "format", ["C14"]),
    (f"{T}/io/pretty/unmarshal.py", "pretty", ["C14"]),
    (f"{T}/io/pcapng/marshal.py", "tpm_pkgs_from_pcap_file", ["C15"]),
    (f"{T}/io/pcapng/marshal.py", "bytes_from_pcap_file", ["C15"]),
    (f"{T}/io/swtpm_log/marshal.py", "parse_hex_string", ["C15"]),
    (f"{T}/io/hex/marshal.py", "parse_hex_string", ["C15"]),
    (f"{T}/io/auto/marshal.py", "marshal", ["C15"]),
    (f"{T}/io/auto/marshal.py", "detect_format_and_yield_buffer", ["C15"]),
    (f"{T}/__main__.py", "convert", ["C19"]),
    (f"{T}/__main__.py", "fuzzy_match", ["C19"]),
    (f"{T}/__main__.py", "main", ["C19"]),
    (f"{T}/__main__.py", "parse_all_types", ["C19"]),
    (f"{T}/__main__.py", "examples", ["C19"]),
    (f"{T}/__main__.py", "find_fields", ["C19"]),
    (f"{T}/io/binary/marshal.py", "process_tpmu", ["C01", "C04", "C06"]),
    (f"{T}/io/binary/marshal.py", "process_primitive", ["C01", "C02", "C04", "C07", "C08"]),
    (f"{T}/io/binary/marshal.py", "process_tpms", ["C01", "C03"]),
    (f"{T}/io/binary/marshal.py", "process_tpm2b", ["C01", "C03", "C08"]),
    (f"{T}/io/binary/marshal.py", "process_byte_sized_array", ["C01", "C03", "C08"]),
    (f"{T}/io/binary/marshal.py", "process_array", ["C01", "C03", "C07"]),
    (f"{T}/io/binary/marshal.py", "process_command", ["C01", "C03", "C08"]),
    (f"{T}/io/binary/marshal.py", "process_response", ["C01", "C03", "C08", "C09"]),
    (f"{T}/io/binary/marshal.py", "process_command_response_stream", ["C09"]),
    (f"{T}/io/binary/marshal.py", "marshal", ["C05", "C10", "C13"]),
    (f"{T}/io/binary/marshal.py", "is_parameter_encryption", ["C09", "C01"]),
    (f"{T}/common/error.py", "InputStreamSuperfluousBytesError.__init__", ["C05", "C13"]),
    (f"{T}/common/constraints.py", "SizeConstraint.bytes_parsed", ["C03", "C13"]),
    (f"{T}/common/constraints.py", "SizeConstraint.set_constraint", ["C03", "C07"]),
    (f"{T}/common/constraints.py", "SizeConstraint.assert_done", ["C03", "C07", "C08"]),
    (f"{T}/common/constraints.py", "SizeConstraintList.bytes_parsed", ["C03"]),
    (f"{T}/spec/common/values.py", "ValidValues.get", ["C04", "C16"]),
    (f"{T}/spec/common/base_type.py", "_INT.is_valid", ["C04"]),
    (f"{T}/spec/common/base_type.py", "_INT.to_bytes", ["C02"]),
    (f"{T}/spec/common/tpm_rc.py", "TPM_RC.__format__", ["C18"]),
    (f"{T}/spec/common/tpm_rc.py", "TPM_RC.attributes", ["C18"]),
    # second batch
    (f"{T}/common/canonical.py", "Canonical.__init__", ["C19", "C11"]),
    (f"{T}/common/canonical.py", "Canonical.events", ["C19", "C11"]),
    (f"{T}/common/canonical.py", "Canonical.object", ["C19", "C11"]),
    (f"{T}/common/object.py", "_events_to_dict", ["C11", "C09"]),
    (f"{T}/common/object.py", "_list_to_obj", ["C11"]),
    (f"{T}/common/path.py", "PathNode.__str__", ["C01", "C14"]),
    (f"{T}/common/path.py", "Path.__new__", ["C01"]),
    (f"{T}/common/path.py", "Path.__add__", ["C01"]),
    (f"{T}/common/path.py", "Path.__getitem__", ["C01"]),
    (f"{T}/common/path.py", "Path.from_string", ["C01", "C05"]),
    (f"{T}/io/binary/marshal.py", "process", ["C01", "C06"]),
    (f"{T}/io/events/unmarshal.py", "unmarshal", ["C14"]),
    (f"{T}/io/pretty/unmarshal.py", "unmarshal", ["C14"]),
    (f"{T}/io/pretty/unmarshal.py", "get_type_name", ["C14"]),
    (f"{T}/io/pretty/unmarshal.py", "pretty_list_elems", ["C14"]),
    (f"{T}/io/pretty/unmarshal.py", "pretty_attrs", ["C14", "C17"]),
    (f"{T}/spec/common/base_type.py", "numeric", ["C16", "C02"]),
    (f"{T}/spec/common/base_type.py", "_INT.__init__", ["C02", "C04"]),
    (f"{T}/spec/common/values.py", "ValidValues.__iter__", ["C04", "C16"]),
    (f"{T}/spec/common/values.py", "NamedRange.__init__", ["C04", "C16"]),
    (f"{T}/spec/common/values.py", "NamedRange.by_number", ["C04", "C16"]),
    (f"{T}/spec/common/values.py", "NamedRange.by_name", ["C16"]),
    (f"{T}/spec/common/values.py", "tpm_bitfield", ["C17"]),
    (f"{T}/spec/common/values.py", "tpm_enum", ["C16", "C04"]),
    (f"{T}/spec/common/values.py", "tpm_dataclass", ["C01", "C11"]),
    (f"{T}/common/error.py", "ValueConstraintViolatedError.__init__", ["C04"]),
    (f"{T}/common/error.py", "SizeConstraintExceededError.__init__", ["C03"]),
    (f"{T}/common/error.py", "AnticipatedSizeConstraintExceededError.__init__", ["C03"]),
    (f"{T}/common/constraints.py", "SizeConstraint.__init__", ["C03"]),
    (f"{T}/__main__.py", "find_type", ["C19"]),
    (f"{T}/__main__.py", "tpm_type_to_str", ["C19"]),
]
BATCH2_FROM = "common/canonical.py"
SWAP = {ast.Eq: ast.NotEq, ast.NotEq: ast.Eq, ast.Lt: ast.LtE, ast.LtE: ast.Lt, ast.Gt: ast.GtE, ast.GtE: ast.Gt,
        ast.Is: ast.IsNot, ast.IsNot: ast.Is, ast.In: ast.NotIn, ast.NotIn: ast.In}


ARITH = {ast.Add: ast.Sub, ast.Sub: ast.Add, ast.LShift: ast.RShift, ast.RShift: ast.LShift, ast.BitAnd: ast.BitOr, ast.BitOr: ast.BitAnd,
         ast.Mult: ast.Add, ast.FloorDiv: ast.Mult, ast.Mod: ast.FloorDiv}
FLIP = {ast.Lt: ast.Gt, ast.Gt: ast.Lt, ast.LtE: ast.GtE, ast.GtE: ast.LtE}


def find_fn(tree, qual):
    node = tree
    for part in qual.split("."):
        node = next(n for n in ast.walk(node) if isinstance(n, (ast.FunctionDef, ast.ClassDef)) and n.name == part and n is not node)
    return node


def sites(fn):
    """(index of node in ast.walk order, kind) for every mutation site.  AUTOMUTATE_OPS=2 selects the second operator
    set (arithmetic / ordering operators, dropped keyword arguments, swapped arguments, `yield from` dropped)."""
    out = []
    ops2 = os.environ.get("AUTOMUTATE_OPS") == "2"
    for i, n in enumerate(ast.walk(fn)):
        if ops2:
            if isinstance(n, (ast.BinOp, ast.AugAssign)) and type(n.op) in ARITH:
                out.append((i, "swap-arith"))
            if isinstance(n, ast.Call):
                for k in range(len(n.keywords)):
                    if n.keywords[k].arg is not None:
                        out.append((i, f"drop-kwarg:{k}"))
                if len(n.args) == 2 and not any(isinstance(a, ast.Starred) for a in n.args):
                    out.append((i, "swap-args"))
            if isinstance(n, ast.Expr) and isinstance(n.value, ast.YieldFrom):
                out.append((i, "unyield"))
            if isinstance(n, ast.Compare) and len(n.ops) == 1 and type(n.ops[0]) in FLIP:
                out.append((i, "flip-cmp"))
            continue
        if isinstance(n, (ast.If, ast.While)) and not (isinstance(n.test, ast.Constant)):
            out.append((i, "negate-test"))
        if isinstance(n, ast.BoolOp):
            out.append((i, "swap-boolop"))
        if isinstance(n, ast.Compare) and len(n.ops) == 1 and type(n.ops[0]) in SWAP:
            out.append((i, "swap-cmp"))
        if isinstance(n, ast.IfExp):
            out.append((i, "swap-ifexp"))
        if isinstance(n, ast.Constant) and isinstance(n.value, int) and not isinstance(n.value, bool) and not isinstance(getattr(n, "_p", None), ast.JoinedStr):
            out.append((i, "const+1"))
        if isinstance(n, ast.Constant) and isinstance(n.value, bool):
            out.append((i, "flip-bool"))
        if isinstance(n, ast.stmt) and n is not fn and not isinstance(n, (ast.FunctionDef, ast.ClassDef, ast.Import, ast.ImportFrom)) \
                and not (isinstance(n, ast.Expr) and isinstance(n.value, ast.Constant)):
            out.append((i, "drop-stmt"))
        if isinstance(n, ast.Continue):
            out.append((i, "continue->break"))
        if isinstance(n, ast.Break):
            out.append((i, "break->continue"))
    return out


def mutate(tree, qual, idx, kind):
    t = copy.deepcopy(tree)
    fn = find_fn(t, qual)
    nodes = list(ast.walk(fn))
    n = nodes[idx]
    desc = ""
    if kind == "negate-test":
        desc = f"L{n.lineno}: negate `{ast.unparse(n.test)[:60]}`"
        n.test = ast.UnaryOp(op=ast.Not(), operand=n.test)
    elif kind == "swap-boolop":
        desc = f"L{n.lineno}: and<->or in `{ast.unparse(n)[:60]}`"
        n.op = ast.Or() if isinstance(n.op, ast.And) else ast.And()
    elif kind == "swap-cmp":
        desc = f"L{n.lineno}: {type(n.ops[0]).__name__}->{SWAP[type(n.ops[0])].__name__} in `{ast.unparse(n)[:60]}`"
        n.ops = [SWAP[type(n.ops[0])]()]
    elif kind == "swap-ifexp":
        desc = f"L{n.lineno}: swap arms of `{ast.unparse(n)[:60]}`"
        n.body, n.orelse = n.orelse, n.body
    elif kind == "const+1":
        desc = f"L{n.lineno}: {n.value} -> {n.value + 1}"
        n.value = n.value + 1
    elif kind == "flip-bool":
        desc = f"L{n.lineno}: {n.value} -> {not n.value}"
        n.value = not n.value
    elif kind == "swap-arith":
        desc = f"L{n.lineno}: {type(n.op).__name__}->{ARITH[type(n.op)].__name__} in `{ast.unparse(n)[:60]}`"
        n.op = ARITH[type(n.op)]()
    elif kind.startswith("drop-kwarg:"):
        k = int(kind.split(":")[1])
        desc = f"L{n.lineno}: drop keyword {n.keywords[k].arg} in `{ast.unparse(n)[:60]}`"
        del n.keywords[k]
    elif kind == "swap-args":
        desc = f"L{n.lineno}: swap arguments of `{ast.unparse(n)[:60]}`"
        n.args = [n.args[1], n.args[0]]
    elif kind == "unyield":
        desc = f"L{n.lineno}: `yield from` dropped in `{ast.unparse(n)[:60]}`"
        n.value = n.value.value
    elif kind == "flip-cmp":
        desc = f"L{n.lineno}: {type(n.ops[0]).__name__}->{FLIP[type(n.ops[0])].__name__} in `{ast.unparse(n)[:60]}`"
        n.ops = [FLIP[type(n.ops[0])]()]
    elif kind in ("continue->break", "break->continue"):
        desc = f"L{n.lineno}: {kind}"
        new = ast.Break() if kind.startswith("continue") else ast.Continue()
        for p in ast.walk(fn):
            for f_, v in ast.iter_fields(p):
                if isinstance(v, list) and any(x is n for x in v):
                    v[[x is n for x in v].index(True)] = ast.copy_location(new, n)
    elif kind == "drop-stmt":
        desc = f"L{n.lineno}: drop `{ast.unparse(n).splitlines()[0][:70]}`"
        for p in ast.walk(fn):
            for f_, v in ast.iter_fields(p):
                if isinstance(v, list) and any(x is n for x in v):
                    k = [x is n for x in v].index(True)
                    v[k] = ast.copy_location(ast.Pass(), n)
    ast.fix_missing_locations(t)
    return t, desc


def run(job):
    rel, qual, props, idx, kind, src_tree = job
    try:
        t, desc = mutate(src_tree, qual, idx, kind)
        code = ast.unparse(t)
        compile(code, rel, "exec")
    except Exception as e:  # not a valid program
        return None
    tmp = tempfile.mkdtemp(prefix="am_", dir="/dev/shm")
    try:
        shutil.copytree("/repo/src", os.path.join(tmp, "src"), ignore=shutil.ignore_patterns("__pycache__", "*.pcap", "*.pyc"))
        open(os.path.join(tmp, "src", rel), "w").write(code)
        res = {}
        for c in props:
            env = dict(os.environ, VERIF_REPO=tmp, TPMSA_EVIDENCE_DIR=os.path.join(tmp, "_ev"), PYTHONDONTWRITEBYTECODE="1")
            p = subprocess.run([os.path.join(HERE, "check"), c], env=env, cwd=HERE, capture_output=True, text=True)
            res[c] = p.returncode
        return rel, qual, kind, desc, res
    finally:
        shutil.rmtree(tmp, ignore_errors=True)


def run_tests(job):
    """does the repository's own test suite notice the mutant?  (the interesting survivors are those it does not)"""
    rel, qual, props, idx, kind, src_tree = job
    t, desc = mutate(src_tree, qual, idx, kind)
    tmp = tempfile.mkdtemp(prefix="amt_", dir="/dev/shm")
    try:
        shutil.copytree("/repo", tmp, dirs_exist_ok=True, ignore=shutil.ignore_patterns("__pycache__", ".git", "*.pyc"))
        open(os.path.join(tmp, "src", rel), "w").write(ast.unparse(t))
        env = dict(os.environ, PYTHONPATH=os.path.join(tmp, "src"), PYTHONDONTWRITEBYTECODE="1")
        p = subprocess.run(["/venv/bin/python", "-m", "pytest", "-x", "-q", "-p", "no:cacheprovider", "--timeout=300",
                            "--ignore=test/test_pytss.py", "test"], env=env, cwd=tmp, capture_output=True, text=True)
        return rel, qual, desc, p.returncode, (p.stdout.strip().splitlines() or [""])[-1]
    finally:
        shutil.rmtree(tmp, ignore_errors=True)


def main():
    flt = sys.argv[1] if len(sys.argv) > 1 else ""
    jobs = []
    targets = TARGETS
    if flt == "batch2":
        k = next(i for i, t in enumerate(TARGETS) if t[0].endswith(BATCH2_FROM))
        targets, flt = TARGETS[k:], ""
    for rel, qual, props in targets:
        if flt and flt not in rel + ":" + qual:
            continue
        if not os.path.exists(os.path.join("/repo/src", rel)):
            continue
        tree = ast.parse(open(os.path.join("/repo/src", rel)).read())
        # identity check: the unparsed original must be silent (unparse changes formatting only)
        try:
            fn = find_fn(tree, qual)
        except StopIteration:
            print(f"(not found: {rel}:{qual})")
            continue
        for idx, kind in sites(fn):
            jobs.append((rel, qual, props, idx, kind, tree))
    print(f"{len(jobs)} mutants")
    stats = {}
    survivors = []
    with ThreadPoolExecutor(max_workers=16) as ex:
        for r in ex.map(run, jobs):
            if r is None:
                continue
            rel, qual, kind, desc, res = r
            key = f"{rel.split('/', 1)[1]}:{qual}"
            st = stats.setdefault(key, [0, 0, 0])
            st[0] += 1
            if any(v == 1 for v in res.values()):
                st[1] += 1
            elif any(v == 2 for v in res.values()):
                st[2] += 1
            else:
                survivors.append((key, kind, desc, r))
    print(f"{'function':62} mutants  killed  exit2  survived")
    tot = [0, 0, 0]
    for k, (n, kd, e2) in sorted(stats.items()):
        print(f"{k:62} {n:7} {kd:7} {e2:6} {n - kd - e2:9}")
        tot = [tot[0] + n, tot[1] + kd, tot[2] + e2]
    print(f"{'TOTAL':62} {tot[0]:7} {tot[1]:7} {tot[2]:6} {tot[0] - tot[1] - tot[2]:9}")
    # a survivor of its own property's checks may still be reported by another property's check: run all 20 on those
    ALL = [f"C{i:02d}" for i in range(1, 21)]
    jobs2 = []
    for key, kind, desc, r in survivors:
        rel, qual = r[0], r[1]
        for j in jobs:
            if j[0] == rel and j[1] == qual and mutate(j[5], qual, j[3], j[4])[1] == desc:
                jobs2.append((rel, qual, ALL, j[3], j[4], j[5]))
                break
    true_surv = []
    jobs3 = []
    with ThreadPoolExecutor(max_workers=8) as ex:
        for j2, r in zip(jobs2, ex.map(run, jobs2)):
            if r is None:
                continue
            rel, qual, kind, desc, res = r
            fired = [c for c, v in res.items() if v]
            (true_surv if not fired else []).append((f"{rel.split('/', 1)[1]}:{qual}", desc))
            if not fired:
                jobs3.append(j2)
            if fired:
                print(f"  elsewhere {rel.split('/', 1)[1]}:{qual}: {desc} -> {' '.join(fired)}")
    print(f"\nsurvivors of all 20 checks ({len(true_surv)}):")
    for key, desc in sorted(true_surv):
        print(f"  {key}: {desc}")
    if os.environ.get("AUTOMUTATE_TESTS", "1") == "1":
        quiet = []
        with ThreadPoolExecutor(max_workers=16) as ex:
            for rel, qual, desc, rc, last in ex.map(run_tests, jobs3):
                if rc == 0:
                    quiet.append((f"{rel.split('/', 1)[1]}:{qual}", desc, last))
        print(f"\n... of which the repository's test suite does not notice either ({len(quiet)}):")
        for key, desc, last in sorted(quiet):
            print(f"  {key}: {desc}    [{last}]")


if __name__ == "__main__":
    main()
