#!/venv/bin/python
"""write the prompts of a control round of PLAIN seeded slips: mkprompts_plain.py <round-number>
-> /tmp/p<round>/prompt<round>_Cnn.txt, to be handed to fresh sub-agents together with scratch worktrees /tmp/seed<round>_Cnn
(`git -C /repo worktree add`).  The prompt contains the property text and one line per earlier seed of that property (files
touched, what it needs to show up) - nothing else from /verif."""
import glob, json, os, re, sys
rnd = sys.argv[1]
props = {json.loads(l)["id"]: json.loads(l) for l in open("/verif/properties.jsonl")}
os.makedirs(f"/tmp/p{rnd}", exist_ok=True)
for i in range(1, 21):
    c = f"C{i:02d}"
    d = props[c]
    wt = f"/tmp/seed{rnd}_{c}"
    earlier = []
    for m in sorted(glob.glob(f"/verif/seeded/{c}-agent*/meta.json")):
        md = json.load(open(m))
        pt = os.path.join(os.path.dirname(m), "patch.diff")
        files = sorted({x.replace("src/tpmstream/", "") for x in re.findall(r"^\+\+\+ b/(\S+)", open(pt).read(), re.M)}) if os.path.exists(pt) else []
        earlier.append(f"- {', '.join(files)}: {md.get('needs_to_manifest', '')[:180]}")
    t = f"""You are helping to test a verification tool by producing a realistic regression in an open-source Python project. Work ONLY inside the scratch git worktree {wt} (a checkout of joholl/tpmstream, a pure-Python TPM 2.0 command/response wire-format decoder; sources under {wt}/src/tpmstream, tests under {wt}/test). Do NOT read, list or touch /verif or /repo - your result must be independent of anything there.

Environment: python is /venv/bin/python. The installed package points at another checkout, so ALWAYS set PYTHONPATH={wt}/src when running anything (verify with: cd {wt} && PYTHONPATH={wt}/src /venv/bin/python -c 'import tpmstream; print(tpmstream.__file__)'). Run the test-suite with: cd {wt} && PYTHONPATH={wt}/src /venv/bin/python -m pytest -q -p no:cacheprovider -n 4 --continue-on-collection-errors 2>&1 | tail -3   (baseline: 14051 passed, 12 skipped, 1 collection error for test_pytss.py which is expected). No network. Do NOT use `git stash` (the stash is shared between worktrees): to test the original code make a copy with `mkdir -p /tmp/s{rnd}_{c}_orig && git -C {wt} archive HEAD | tar -x -C /tmp/s{rnd}_{c}_orig`. Never use pkill / killall. You have about 15 minutes: decide quickly.

The property (a semantic guarantee users rely on):

Title: {d['title']}
Statement: {d['statement']}
Quantified over: {d['quantifier']}
Why the existing tests cannot settle it: {d['why_tests_cant']}
Code it is anchored in: {json.dumps(d['anchors'])}

YOUR TASK: make ONE small change (1 to 6 changed lines, no refactoring around it, no new helper, no renaming) to the source under {wt}/src/tpmstream - the kind of slip that really ends up in a commit: an off-by-one, a wrong comparison operator, a swapped argument, a wrong constant or table entry, a dropped or duplicated statement, a condition that is slightly too wide or too narrow, a wrong default, a copy-paste leftover, `and` for `or`, the wrong variable of two with similar names, a statement moved one line up or down or out of / into a branch or loop - that BREAKS this property while (a) the package still imports and (b) the complete existing pytest suite still passes unchanged (same pass count). Prefer a slip that needs something specific to manifest (an unusual input, a type / command code / value the test corpus never touches, a boundary such as 0 or the exact end of a region, warn mode, a particular sequence). No artificial code (`if value == 0x1234: corrupt`); it must look like an honest mistake. Do not edit tests.

Earlier engineers already produced the following regressions for the same property (where, and what it needs to show up). Yours must be at a DIFFERENT place (another function; another module if the property allows) and break a different clause or a different case of the property. It is fine - even welcome - to pick a function that looks boring or peripheral (a printer, a helper, an error class, a table module, the object conversion, a front-end, the command line, the path / event classes) as long as the property really breaks:
{chr(10).join(earlier)}

Deliverables, in {wt}/_seed/ (create the directory):
1. patch.diff - output of `git -C {wt} diff` (source change only, not the _seed dir).
2. demo.py - a small standalone program (run as: PYTHONPATH=<checkout>/src /venv/bin/python demo.py) that exits 0 and prints PASS on the ORIGINAL code and exits non-zero and prints FAIL on the changed code. It must check the property on concrete inputs with hard-coded expectations (not by comparing the code with itself). Verify both directions yourself.
3. notes.md - which clause it breaks, what is needed for it to manifest, and the exact commands you ran (test-suite result line with the change).
Leave the worktree with the change applied. Finish with a summary of at most 6 lines: the changed file/function, why tests still pass, what the demo shows.
"""
    open(f"/tmp/p{rnd}/prompt{rnd}_{c}.txt", "w").write(t)
print(f"/tmp/p{rnd}: 20 prompts")
