#!/venv/bin/python
"""write meta.json for a round-5 pair: seedmeta5.py <prop> <suffix> <needs...>   (after tools/evalseed5.sh)"""
import json, os, sys
prop, suf, needs = sys.argv[1], sys.argv[2], " ".join(sys.argv[3:])
sid = f"{prop}-{suf}"
d, b = f"/verif/seeded/{sid}", f"/verif/seeded/benign/R-{sid}"
rd = lambda p: open(p).read().strip() if os.path.exists(p) else ""
fired = rd(f"{d}/fired.txt")
target = f"{prop}(rc=1)" in fired
others = [x for x in fired.replace("checks that fired:", "").split() if not x.startswith(prop)]
meta = {
    "id": sid, "property": prop,
    "origin": "fresh sub-agent given only the property text and a scratch worktree, asked for a realistic clean-up commit in which ONE "
              "accident breaks the property, delivered together with the repaired commit (kept as seeded/benign/R-" + sid + ")",
    "needs_to_manifest": needs,
    "confirmed": {
        "patch_applies_to_repo_head": True,
        "demo_on_original": rd(f"{d}/demo_original.txt").splitlines()[-1:],
        "demo_on_changed": rd(f"{d}/demo_changed.txt").splitlines()[-1:],
        "demo_on_repaired": rd(f"{b}/demo_repaired.txt").splitlines()[-1:],
        "test_suite_with_change": rd(f"{d}/tests_changed.txt"),
        "how": "tools/evalseed5.sh: fresh `git worktree add` of /repo HEAD under /tmp; demo on original / accident / repaired; equiv.py "
               "original vs repaired; full pytest run for both; every check run on both with VERIF_REPO=<worktree>; worktree removed",
    },
    "checks": fired,
    "caught_by_target_property": target,
    "first_contact": ("caught by the target check" if target else "exit 2 in the target check" if f"{prop}(rc=2)" in fired else
                      "target silent" + (f" ({' '.join(others)} fired)" if others else " (nothing fired)")),
}
json.dump(meta, open(f"{d}/meta.json", "w"), indent=1)
bf = rd(f"{b}/fired.txt").replace("checks that fired:", "").split()
bmeta = {
    "id": f"R-{sid}", "kind": "the clean-up commit of seeded change " + sid + " without its accident (delivered by the same sub-agent)",
    "area": f"see seeded/{sid}",
    "confirmed": {"seed_demo_passes": rd(f"{b}/demo_repaired.txt").splitlines()[-1:], "equiv": rd(f"{b}/equiv_verdict.txt"),
                  "test_suite_with_change": rd(f"{b}/tests_changed.txt")},
    "first_contact_checks_that_fired": bf, "checks_that_fire_now": bf,
}
if bf:
    bmeta["status"] = "open"
json.dump(bmeta, open(f"{b}/meta.json", "w"), indent=1)
print(sid, "|", fired, "| repaired:", " ".join(bf) or "silent")
