#!/venv/bin/python
"""Run all 20 checks against every seeded refactoring (seeded/benign/*/patch.diff applied to a scratch copy of /repo/src).
usage: sweepbenign.py [id-prefix]   prints, per refactoring, the checks that are not silent with their first lines"""
import glob, os, shutil, subprocess, sys, tempfile
from concurrent.futures import ThreadPoolExecutor
HERE = os.path.dirname(os.path.dirname(os.path.abspath(__file__)))
ALL = [f"C{i:02d}" for i in range(1, 21)]
pref = sys.argv[1] if len(sys.argv) > 1 else ""
width = int(os.environ.get("WIDTH", "260"))


def one(patch):
    bid = os.path.basename(os.path.dirname(patch))
    tmp = tempfile.mkdtemp(prefix="sw_", dir="/dev/shm")
    try:
        shutil.copytree("/repo/src", os.path.join(tmp, "src"), ignore=shutil.ignore_patterns("__pycache__", "*.pcap", "*.pyc"))
        r = subprocess.run(["git", "apply", "--unsafe-paths", "--directory", tmp, patch], cwd=tmp, capture_output=True, text=True)
        if r.returncode:
            return bid, [("PATCH", 9, [r.stderr[:200]])]
        out = []
        for c in ALL:
            env = dict(os.environ, VERIF_REPO=tmp, TPMSA_EVIDENCE_DIR=os.path.join(tmp, "_ev"), PYTHONDONTWRITEBYTECODE="1")
            p = subprocess.run([os.path.join(HERE, "check"), c], env=env, cwd=HERE, capture_output=True, text=True)
            if p.returncode:
                lines = [l[:width] for l in (p.stdout + p.stderr).splitlines()
                         if not l.startswith(("  rule", "[C", "  info", "KNOWN-FINDING", "VIOLATION", "    path"))][:int(os.environ.get("LINES_MAX", "3"))]
                out.append((c, p.returncode, lines))
        return bid, out
    finally:
        shutil.rmtree(tmp, ignore_errors=True)


sub = ("benign",)
if pref.startswith("seed:"):   # sweep regressions instead: seed:C02-agent4, seed:C (all), ...
    sub, pref = (), pref[5:]
patches = sorted(p for p in glob.glob(os.path.join(HERE, "seeded", *sub, "*", "patch.diff"))
                 if os.path.basename(os.path.dirname(p)).startswith(pref))
silent = 0
with ThreadPoolExecutor(max_workers=6) as ex:
    for bid, out in ex.map(one, patches):
        if not out:
            silent += 1
            continue
        print(f"######## {bid}: " + " ".join(f"{c}(rc={rc})" for c, rc, _ in out))
        for c, rc, lines in out:
            for l in lines:
                print(f"   {c}: {l}")
print(f"{silent} of {len(patches)} silent")
