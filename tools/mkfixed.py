#!/venv/bin/python
"""mkfixed.py <seed-id> <relative file> <old text> <new text> [<file> <old> <new> ...]
Build the *repaired* variant of a seeded refactoring-with-an-accident: the seed's patch is applied to a scratch worktree
of /repo HEAD, the accident is put right by the given text replacement(s), the seed's own demo must print PASS, and the
resulting diff is stored as seeded/benign/R-<seed-id>/patch.diff (a behaviour-preserving refactoring: every check must
stay silent on it, while the original seed must still be caught)."""
import json, os, subprocess, sys, tempfile
sid = sys.argv[1]
edits = [sys.argv[i:i + 3] for i in range(2, len(sys.argv), 3)]
seed = f"/verif/seeded/{sid}"
wt = tempfile.mkdtemp(prefix="fixed_", dir="/tmp"); os.rmdir(wt)
subprocess.run(["git", "-C", "/repo", "worktree", "add", "-q", wt, "HEAD"], check=True)
try:
    subprocess.run(["git", "-C", wt, "apply", f"{seed}/patch.diff"], check=True)
    for rel, old, new in edits:
        p = os.path.join(wt, rel)
        s = open(p).read()
        old, new = old.encode().decode("unicode_escape"), new.encode().decode("unicode_escape")
        if s.count(old) != 1:
            sys.exit(f"`{old}` occurs {s.count(old)} times in {rel}")
        open(p, "w").write(s.replace(old, new))
    r = subprocess.run(["/venv/bin/python", f"{seed}/demo.py"], cwd=wt, env=dict(os.environ, PYTHONPATH=f"{wt}/src"), capture_output=True, text=True)
    last = (r.stdout.strip().splitlines() or ["?"])[-1]
    print("demo on repaired variant:", r.returncode, last[:100])
    if r.returncode != 0:
        sys.exit("the repaired variant does not pass the seed's demo")
    t = subprocess.run(f"cd {wt} && PYTHONPATH={wt}/src /venv/bin/python -m pytest -q -p no:cacheprovider -n 12 --continue-on-collection-errors 2>&1 | tail -1",
                       shell=True, capture_output=True, text=True).stdout.strip()
    print("tests:", t)
    out = f"/verif/seeded/benign/R-{sid}"
    os.makedirs(out, exist_ok=True)
    d = subprocess.run(["git", "-C", wt, "diff"], capture_output=True, text=True).stdout
    open(f"{out}/patch.diff", "w").write(d)
    json.dump({"id": f"R-{sid}", "kind": f"the refactoring part of seeded change {sid} with its accident repaired (by hand, from the agent's notes)",
               "area": "see seeded/" + sid, "repair": [{"file": e[0], "old": e[1], "new": e[2]} for e in edits],
               "confirmed": {"seed_demo_passes": True, "test_suite_with_change": t},
               "first_contact_checks_that_fired": [], "checks_that_fire_now": []}, open(f"{out}/meta.json", "w"), indent=1)
    print("written", out)
finally:
    subprocess.run(["git", "-C", "/repo", "worktree", "remove", "--force", wt])
