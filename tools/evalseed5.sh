#!/bin/bash
# usage: evalseed5.sh <property, e.g. C07> [round-suffix, default agent5]
# Confirms a "clean-up commit with one accident" delivered in /tmp/seed5_<prop>/_seed (patch.diff, patch_repaired.diff,
# demo.py, equiv.py, notes.md) and evaluates BOTH versions with all 20 checks (via VERIF_REPO; /repo is never touched):
#   seeded/<prop>-<suffix>/            the commit with the accident   (must be reported by the target property's check)
#   seeded/benign/R-<prop>-<suffix>/   the repaired commit            (must leave all 20 checks silent)
set -u
prop=$1; suf=${2:-agent5}; wt=/tmp/seed5_$prop
sid=$prop-$suf; out=/verif/seeded/$sid; ben=/verif/seeded/benign/R-$sid
for f in patch.diff patch_repaired.diff demo.py; do [ -f $wt/_seed/$f ] || { echo "MISSING $f"; exit 1; }; done
mkdir -p $out $ben; rm -f $out/check_*.txt $ben/check_*.txt
cp $wt/_seed/patch.diff $out/patch.diff; cp $wt/_seed/demo.py $out/demo.py; cp $wt/_seed/notes.md $out/notes.md 2>/dev/null
cp $wt/_seed/patch_repaired.diff $ben/patch.diff; cp $wt/_seed/equiv.py $ben/equiv.py 2>/dev/null; cp $wt/_seed/notes.md $ben/notes.md 2>/dev/null
run_checks() {  # <tree> <outdir>
  local fired=""
  for c in C01 C02 C03 C04 C05 C06 C07 C08 C09 C10 C11 C12 C13 C14 C15 C16 C17 C18 C19 C20; do
    VERIF_REPO=$1 TPMSA_EVIDENCE_DIR=$1/_ev /verif/check $c > $1/_$c.log 2>&1; rc=$?
    if [ $rc -ne 0 ]; then fired="$fired $c(rc=$rc)"; grep -v "^  rule\|^\[C\|^  info\|KNOWN-FINDING" $1/_$c.log | cut -c1-330 | head -4 > $2/check_$c.txt; fi
  done
  echo "checks that fired:$fired" | tee $2/fired.txt
}
# --- original
sc=$(mktemp -d /tmp/seedchk_XXXX); rmdir $sc; git -C /repo worktree add -q $sc HEAD
( cd $sc && PYTHONPATH=$sc/src timeout 600 /venv/bin/python $out/demo.py > $out/demo_original.txt 2>&1; echo "demo on original: rc=$?" )
[ -f $ben/equiv.py ] && ( cd $sc && PYTHONPATH=$sc/src timeout 900 /venv/bin/python $ben/equiv.py > $ben/equiv_original.txt 2>&1; echo "equiv on original rc=$?" )
# --- accident version
git -C $sc apply $out/patch.diff || { echo "PATCH DOES NOT APPLY"; git -C /repo worktree remove --force $sc; exit 1; }
( cd $sc && PYTHONPATH=$sc/src timeout 600 /venv/bin/python $out/demo.py > $out/demo_changed.txt 2>&1; echo "demo on accident version: rc=$?" )
( cd $sc && PYTHONPATH=$sc/src /venv/bin/python -m pytest -q -p no:cacheprovider -n 12 --continue-on-collection-errors 2>&1 | tail -1 ) | tee $out/tests_changed.txt
echo "== accident version"; run_checks $sc $out
git -C $sc apply -R $out/patch.diff; rm -rf $sc/_ev $sc/_C*.log
# --- repaired version
git -C $sc apply $ben/patch.diff || { echo "REPAIRED PATCH DOES NOT APPLY"; git -C /repo worktree remove --force $sc; exit 1; }
( cd $sc && PYTHONPATH=$sc/src timeout 600 /venv/bin/python $out/demo.py > $ben/demo_repaired.txt 2>&1; echo "demo on repaired version: rc=$?" )
[ -f $ben/equiv.py ] && ( cd $sc && PYTHONPATH=$sc/src timeout 900 /venv/bin/python $ben/equiv.py > $ben/equiv_changed.txt 2>&1; echo "equiv on repaired rc=$?" )
[ -f $ben/equiv.py ] && { cmp -s $ben/equiv_original.txt $ben/equiv_changed.txt && echo "equiv outputs IDENTICAL" || echo "equiv outputs DIFFER"; } | tee $ben/equiv_verdict.txt
( cd $sc && PYTHONPATH=$sc/src /venv/bin/python -m pytest -q -p no:cacheprovider -n 12 --continue-on-collection-errors 2>&1 | tail -1 ) | tee $ben/tests_changed.txt
echo "== repaired version (should be silent)"; run_checks $sc $ben
for f in $out/check_*.txt; do [ -f $f ] && { echo "--- accident $f"; cat $f; }; done
for f in $ben/check_*.txt; do [ -f $f ] && { echo "--- REPAIRED $f"; cat $f; }; done
git -C /repo worktree remove --force $sc
