#!/venv/bin/python
"""print the markdown table of seeded changes for DESIGN.md Appendix C from seeded/*/meta.json"""
import glob, json, os
STRENGTHENED = {
    "C01-agent1": "C01 gained W8 (= C03-R4: a decode starts from its own empty region list)",
    "C02-agent1": "C02 gained B6 (no raise/assert on the encode path)",
    "C03-agent1": "C03 gained R6 (byte counts are never tested by truthiness); C08-Y4/C13-A3 stopped matching text and resolve through locals/properties",
    "C04-agent1": "C04-V4 now requires the membership expression on *every* return path of is_valid",
    "C06-agent1": "C06 discharge of the `_list_size[...]` subscript became guard-aware (obligation over all members when not under `is_list(field.type)`)",
    "C08-agent1": "C08 gained Y0 (threading of the mode flag, shared with C07-NI-2)",
    "C10-agent1": "role discovery accepts `iter(<expr over buffer>)`; C10-T2 then reports the pre-read (before: exit 2)",
    "C13-agent1": "caught from the start, but C05/C10 raised false alarms on the helper extraction: the remaining-bytes resolver now inlines small pure helpers",
    "C14-agent1": "C14-Q2 typestate learned `for x in generator` pulls (before: exit 2)",
    "C17-agent1": "C17-M2 learned the closed form `(value & mask) >> shift` and judges the shift amount (before: exit 2)",
    "C02-agent2": "primitive-walker rules accept several event yields; C02-B1 / C01-W2 / C04-V1 check every event's value class (before: exit 2)",
    "C05-agent2": "C05-E2: the command-code capture may be guarded by the event's path only",
    "C06-agent2": "ledger idiom list gained `int.to_bytes` without `signed=`",
    "C10-agent2": "C10-T1 gained the who-may-request-bytes rule (only the primitive walker and consume_bytes)",
    "C11-agent2": "C11 gained A6 (the memo of encrypted() must be identity-stable; shared with C12-P2)",
    "C13-agent2": "C13 gained A4 (charge-before-read and threading, shared with C03-R2/R4)",
    "C14-agent2": "caught from the start by Q1, but for an imprecise reason: Q1 now tracks boolean locals assigned from isinstance tests and kills them when the event variable is re-bound (the stale flag is the defect)",
    "C15-agent2": "C15 gained F7 (unpaired-digit ValueError exit); T2 no longer flags `for b in buffer` (iteration is iterator-protocol use)",
    "C17-agent2": "C17-M2 learned the arithmetic row family and requires zero padding to the field width (before: exit 2)",
    "C19-agent2": "C19-L2: the only raise of convert() must be guarded by `tpm_type is not CommandResponseStream and --in=auto` at top level",
    "C01-agent3": "first contact: exit 2 (no int.from_bytes call). The reader rules gained a second recognised idiom - in-place big-endian accumulation with two's-complement correction - and judge its threshold exactly (`>=` 2^(8n-1)); a correct variant of the idiom is a benign twin",
    "C02-agent3": "first contact: escaped every check. New rule `primitive event once` (C02-B3 = C01-W2 = C04-V1 = C08-Y6): on every returning path of the primitive walker the field's own event is emitted exactly once, before any warning",
    "C05-agent3": "first contact: escaped every check. New shared rule `error carriers` (C05-E1 = C13-A1 = C03-R7 = C04-V6): every detail attribute of the exception classes is the constructor argument of that name on every path",
    "C06-agent3": "first contact: C06 silent (C01-F fired through a text comparison). The `encrypted()` substitution guard is now evaluated over every dataclass of L (C01-F, C06-X1): it must hold exactly for the TPMS_PARAMS subclasses",
    "C09-agent3": "first contact: C09 silent (C05-E3 fired). C09 gained S6 = C05-E3 (a stream ends silently only at a message boundary)",
    "C10-agent3": "first contact: exit 2 in 12 checks - the normaliser inlined the new event-holding sub-pump into process_tpm2b, which then looked like a second pump. The pump role now requires the driver to feed from `iter(<own parameter>)`; C10-T1 then reports the byte request inside process_tpm2b",
    "C12-agent3": "first contact: C12 silent (C03-R1 fired). C12-P1 now treats method calls that write `self` on a module-level instance of a repo class (directly or through a local alias / a method returning self) as cross-decode state; helper methods other modules mention are kept by the normaliser",
}
rows = []
for m in sorted(glob.glob(os.path.join(os.path.dirname(os.path.dirname(os.path.abspath(__file__))), "seeded", "*", "meta.json"))):
    d = json.load(open(m))
    diff = open(os.path.join(os.path.dirname(m), "patch.diff")).read()
    files = sorted({l[6:].split("/")[-1] for l in diff.splitlines() if l.startswith("+++ b/")})
    rules = []
    f = os.path.join(os.path.dirname(m), f"check_{d['property']}.txt")
    if os.path.exists(f):
        for l in open(f):
            parts = l.split(": ", 2)
            if len(parts) >= 2 and " in " in parts[1]:
                r = parts[1].split(" in ")[0]
                if r not in rules:
                    rules.append(r)
    rows.append((d["id"], d["property"], ", ".join(files), d["needs_to_manifest"], d["checks"].replace("checks that fired: ", "").replace("(rc=1)", ""),
                 "/".join(rules), STRENGTHENED.get(d["id"], "caught as built")))
print("| seed | property | changed | needs, to manifest | checks that fire | target rule | note |")
print("|------|----------|---------|--------------------|------------------|-------------|------|")
for r in rows:
    print("| " + " | ".join(x.replace("|", "/") for x in r) + " |")
