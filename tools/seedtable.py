#!/venv/bin/python
"""print the markdown table of seeded changes for DESIGN.md Appendix C from seeded/*/meta.json"""
import glob, json, os
STRENGTHENED = {
    "C01-agent1": "C01 gained W8 (= C03-R4: a decode starts from its own empty region list)",
    "C02-agent1": "C02 gained B6 (no raise/assert on the encode path)",
    "C03-agent1": "C03 gained R6 (byte counts are never tested by truthiness); C08-Y4/C13-A3 stopped matching text and resolve through locals/properties",
    "C04-agent1": "C04-V4 now requires the membership expression on *every* return path of is_valid",
    "C06-agent1": "C06 discharge of the `_list_size[...]` subscript became guard-aware (obligation over all members when not under `is_list(field.type)`)",
    "C08-agent1": "C08 gained Y0 (threading of the mode flag, shared with C07-NI-2)",
    "C10-agent1": "role discovery accepts `iter(<expr over buffer>)`; C10-T2 then reports the pre-read (before: exit 2)",
    "C13-agent1": "caught from the start, but C05/C10 raised false alarms on the helper extraction: the remaining-bytes resolver now inlines small pure helpers",
    "C14-agent1": "C14-Q2 typestate learned `for x in generator` pulls (before: exit 2)",
    "C17-agent1": "C17-M2 learned the closed form `(value & mask) >> shift` and judges the shift amount (before: exit 2)",
    "C02-agent2": "primitive-walker rules accept several event yields; C02-B1 / C01-W2 / C04-V1 check every event's value class (before: exit 2)",
    "C05-agent2": "C05-E2: the command-code capture may be guarded by the event's path only",
    "C06-agent2": "ledger idiom list gained `int.to_bytes` without `signed=`",
    "C10-agent2": "C10-T1 gained the who-may-request-bytes rule (only the primitive walker and consume_bytes)",
    "C11-agent2": "C11 gained A6 (the memo of encrypted() must be identity-stable; shared with C12-P2)",
    "C13-agent2": "C13 gained A4 (charge-before-read and threading, shared with C03-R2/R4)",
    "C14-agent2": "caught from the start by Q1, but for an imprecise reason: Q1 now tracks boolean locals assigned from isinstance tests and kills them when the event variable is re-bound (the stale flag is the defect)",
    "C15-agent2": "C15 gained F7 (unpaired-digit ValueError exit); T2 no longer flags `for b in buffer` (iteration is iterator-protocol use)",
    "C17-agent2": "C17-M2 learned the arithmetic row family and requires zero padding to the field width (before: exit 2)",
    "C19-agent2": "C19-L2: the only raise of convert() must be guarded by `tpm_type is not CommandResponseStream and --in=auto` at top level",
    "C01-agent3": "first contact: exit 2 (no int.from_bytes call). The reader rules gained a second recognised idiom - in-place big-endian accumulation with two's-complement correction - and judge its threshold exactly (`>=` 2^(8n-1)); a correct variant of the idiom is a benign twin",
    "C02-agent3": "first contact: escaped every check. New rule `primitive event once` (C02-B3 = C01-W2 = C04-V1 = C08-Y6): on every returning path of the primitive walker the field's own event is emitted exactly once, before any warning",
    "C05-agent3": "first contact: escaped every check. New shared rule `error carriers` (C05-E1 = C13-A1 = C03-R7 = C04-V6): every detail attribute of the exception classes is the constructor argument of that name on every path",
    "C06-agent3": "first contact: C06 silent (C01-F fired through a text comparison). The `encrypted()` substitution guard is now evaluated over every dataclass of L (C01-F, C06-X1): it must hold exactly for the TPMS_PARAMS subclasses",
    "C09-agent3": "first contact: C09 silent (C05-E3 fired). C09 gained S6 = C05-E3 (a stream ends silently only at a message boundary)",
    "C10-agent3": "first contact: exit 2 in 12 checks - the normaliser inlined the new event-holding sub-pump into process_tpm2b, which then looked like a second pump. The pump role now requires the driver to feed from `iter(<own parameter>)`; C10-T1 then reports the byte request inside process_tpm2b",
    "C12-agent3": "first contact: C12 silent (C03-R1 fired). C12-P1 now treats method calls that write `self` on a module-level instance of a repo class (directly or through a local alias / a method returning self) as cross-decode state; helper methods other modules mention are kept by the normaliser",
    "C01-agent4": "first contact: C01 silent (C05-E3 / C09-S6 fired). C01 gained W10 = C05-E3: without the stream-type guard of the pump's silent return the root event of a zero-length structure decoded at top level is swallowed",
    "C02-agent4": "caught from the start (primitive event once); its refactoring part (emit()/read_bytes() generator helpers) tripped the read-loop rule, which now accepts `data.append((yield None))`, bytearray accumulators and `int.from_bytes(bytes(data))` and checks that the accumulator starts empty",
    "C03-agent4": "caught from the start, with false-alarm companions on the new `size_remaining` property. The normaliser expands new members of pinned classes in every module (N9), simplifies the resulting conditional values under known facts (N10) and canonicalises linear arithmetic (N11); R6 recognises the truthiness of an expanded count expression",
    "C04-agent4": "caught from the start; V4 / O4 were restated as decision tables over path summaries (ValidValues.get per item, NamedRange.__contains__/by_number/__init__), which also turned the companion exit 2 of C16 into a report",
    "C05-agent4": "first contact: exit 2 in 12 checks (the clean-up keeps the look-ahead in `next(it, None)` form, there is no depleted flag). The pump typestate learned the marker form (B = EMPTY, `byte is None` tests), constant loop tests and a `warned` component; C05-E3 then reports the lost depleted guard",
    "C06-agent4": "first contact: C06 silent (C01-F reported the IndexError). C06-X1 re-uses the fold of encrypted() over all parameter areas and reports its raising outcomes",
    "C07-agent4": "caught from the start (NI-2); the repaired variant's `SizeConstraintList.open()` needed N9 (methods expanded across modules) and list-membership folding in the specialiser",
    "C08-agent4": "caught as built (Y2)",
    "C09-agent4": "caught after S2 gained the loop-carried argument rule (a flag left by an earlier iteration of the stream loop reaches the response decode)",
    "C10-agent4": "first contact: C10 silent (C05-E3 / C09-S6 fired). C10 gained T5 = C05-E3: the empty prefix of a non-stream decode must report depletion",
    "C11-agent4": "first contact: exit 2 (the invisible-field names moved onto the layout classes). The specialiser folds tuples of names kept on layout classes, C11 evaluates a non-literal name set with the spec-model evaluator; A1 then reports the two missing names",
    "C12-agent4": "caught from the start (P2 / A6 on the bounded memo); the repaired variant needed minieval to follow same-module helpers and A6 to follow the memo into the delegated helper",
    "C13-agent4": "first contact: exit 2 (a `lookahead` tuple mirrors the byte). The resolver decides feasibility of definitions next to a pull from the typestate and reports a copy of the look-ahead byte that a later pull may have replaced",
    "C14-agent4": "first contact: caught only through a false alarm on the merged loop. Q2 accepts a held event that moves to another name and is handed back, and requires that the emptiness flag is cleared only by an event known to be a list element - which is the seeded accident",
    "C15-agent4": "first contact: caught only through a false alarm on the dict dispatch. F7 gained: a local that holds a digit value or None is never tested by truthiness (the digit 0 is a digit)",
    "C16-agent4": "caught as built after O4 became a table over the summaries of NamedRange.__init__ (index_nibbles)",
    "C17-agent4": "first contact: exit 2 (shift-loop idiom gone). M2 evaluates the accessor for every mask with the register value symbolic and splits on value bits when the code branches on them: the content-dependent shift is reported with the class of values it is wrong for",
    "C18-agent4": "first contact: exit 2 (`entry is None`). The classification walker decides None-marker locals per branch; N1 then reports the 256 vendor codes that are classified as warnings",
    "C19-agent4": "caught as built (L2), after N3 learned table comprehensions and N14 one-element loops for the refactoring part",
    "C20-agent4": "caught as built (snapshot)",
    "C01-agent5": "first contact: C01 silent (C04/C16 false alarms on the new inclusive bounds). NamedRange is now checked as an abstract data type - the constructor's bindings are substituted into the observers' path conditions (C04-V4 = C16-O4 = C01-W13): the off-by-one at the inclusive last bound is reported, the repaired commit is silent",
    "C02-agent5": "caught from the start (the table lookup by exact type does not follow from the two guards); its refactoring part needed first-match tables, map(), conditional callables and one-expression helpers in the summaries",
    "C03-agent5": "first contact: exit 2 (a table of regions, an open_region() generator helper). The specialiser evaluates lookups in literal tables and canonical decision keys (`element_value != TPM_RC.SUCCESS` is the response-code test); C03-R1 then reports the early return that leaves responseSize open",
    "C04-agent5": "first contact: exit 2 in 16 checks. The spec model learned map() / islice() / straight-line table helpers; the slip is reported by the snapshot (V5). The *repaired* commit turned out not to be benign (see Appendix D): C20-T7",
    "C05-agent5": "first contact: exit 2 in 12 checks (the pump's state moved into a `_LookAheadBytes` object). N22 dissolves local records into locals; C05-E2 gained: the running command code starts as None (it shares its name with the pump's argument) - the seeded slip",
    "C06-agent5": "first contact: reported only through false alarms on the anticipate()/bytes_parsed() split. C06 gained X3: every resolvable call in the decode core supplies its callee's required parameters (the missing `violator_value` is a TypeError)",
    "C07-agent5": "caught from the start (NI-3: the dropped `yield`), with false-alarm companions on the cross-module warn_or_raise() helper; new imported functions are now expanded across modules, NI-3 follows a warning stored in a local",
    "C08-agent5": "first contact: exit 2 (`self.skip_remaining()` without `yield from`). New shared rule `discarded generators` (C08-Y7 = C03-R9 = C01-W12) and C03-R8 (outcome tables of bytes_parsed / assert_done)",
    "C09-agent5": "caught from the start (S5: the lost command-code reset in events_to_objs)",
    "C10-agent5": "first contact: C10 silent. C10 gained T6: a scanner may start only one traversal of its raw `buffer` parameter (a bytes / list source restarts at every traversal)",
    "C11-agent5": "first contact: C11 silent (C01-W7 fired). C11 gained A7 = C01-W7: a union arm without payload decodes to None",
    "C12-agent5": "first contact: C12 silent, C09 exit 2 (is_parameter_encryption changed its signature). S3 identifies the parameters by role; C12 gained P5 = C09-S2 (nothing is carried over between the pairs of a stream)",
    "C13-agent5": "reported by the target, but through rules that also fire on the repaired commit (bytes_parsed became a plain method, the skip moved to the caller): an architecture-level redistribution that the rules do not follow (section 7)",
    "C14-agent5": "caught from the start, for the right reason only after Q4 stopped accepting str(value) as the value's text form (handle types format symbolically, str() gives the number)",
    "C15-agent5": "not reported: the scanner's state representation was rewritten (marker progress as a count, an Enum, a for loop over a helper generator) and the slip (progress not reset on a mismatch) is a property of the rewritten automaton; since round 6 the transition table is not applied to a scanner in another form (before: exit 2) - section 7",
    "C01-agent6": "first contact: exit 2 in 5 checks (present_fields() generator, tables keyed by the layout class). N25 fuses a consumer loop into a generator helper, the specialiser reads type-keyed tables, assertions are traced: C01-F reports the encryption cross-check that is evaluated in variants without a session area (the known finding K2 on the same assert would otherwise have hidden it)",
    "C02-agent6": "first contact: C02 silent (C04 / C16 reported the member value). C02 gained B7 = the NamedRange rule: by_number(n) is the member with value n",
    "C03-agent6": "caught from the start (R5: the list no longer charges its members in order); the repaired commit needed the ledger's guarded-at-callers discharge (`is_obsolete` tested by the caller instead of caught)",
    "C04-agent6": "first contact: exit 2 in 18 checks (the algorithm types became an IntFlag combined with reduce(or_, ...) and read through a property). The spec model learned IntFlag classes, functools.reduce over operator functions, and derives its model of AlgValue from the class's own __init__ and properties; the snapshot (V5) then reports the interface types that accept too many algorithms",
    "C05-agent6": "caught from the start (E3: the boundary test); the repaired commit recognises a message root by `event.type in {Command, Response}`, which E3 now accepts for exactly that set",
    "C06-agent6": "first contact: reported with false-alarm companions (a mutable set of absent field names). The specialiser tracks constant sets, N24 / N26 expand table subscripts and `.get` into case distinctions; C06-X1 reports the KeyError for a tag outside the table",
    "C07-agent6": "first contact: reported with false-alarm companions on the overrun_warning(*own_constraints) helper; helpers with *args are inlined now, NI-3 / Y2 report the warning that is built but not yielded",
    "C08-agent6": "caught from the start (Y3 / the None session area)",
    "C09-agent6": "first contact: exit 2 (separate_events as index slicing). S5 recognises the index form exactly and checks its two clauses; the `-1` end is reported",
    "C10-agent6": "first contact: C10 silent, C15 false alarm on the rewritten swtpm scanner. New rule C15-F11 = C10-T7: a character obtained with `next(it, default)` may reach int(..., 16) only where the default was excluded",
    "C11-agent6": "first contact: reported through a false alarm (is_dataclass instead of the TypeError of fields()). A3 treats both as the same test; the `not value` test is reported for the empty session area",
    "C12-agent6": "first contact: C12 silent. C12 gained P4: the result of a memoised function is shared - a caller must not mutate it",
    "C13-agent6": "caught from the start (A1: the consumed byte instead of the look-ahead byte); the repaired commit's `sent = lookahead` copy needed alias resolution in the pump analysis",
    "C14-agent6": "first contact: reported only through false alarms. C14 gained Q8: the byte buffer's translation table, folded by the mini interpreter, maps every byte to printable ASCII (control characters would break the row)",
    "C15-agent6": "first contact: reported with false-alarm companions (dispatch table, chain(), slice constants). N23 / N24 and slice constants in the normaliser; F5 reports the `<=` runt test",
    "C16-agent6": "first contact: exit 2 in 6 checks (tpm_enum's internals rearranged: a shared metaclass, a _find() search that by_value and the constructor share, one text function attached under three names). Model guard G4 accepts the wrapped search, O4 resolves what is installed as __format__ / __str__ / __repr__ and reports the closure's class name in the text form",
    "C17-agent6": "first contact: exit 2 (string slicing of the bit text). The mini interpreter concatenates / slices / repeats symbolic text; M2 reports the empty row of the field at bit 0",
    "C18-agent6": "first contact: exit 2 (`_field(mask)` helper, division by the lowest set bit). The classification walker evaluates helper functions and methods symbolically and treats division by a power of two as a shift; N1 reports the 256 codes named from six bits",
    "C19-agent6": "first contact: C19 silent. C19 gained L8: cc_name folded over all 117 command codes must give the member's name (lstrip strips a character set)",
    "C20-agent6": "caught from the start (snapshot); the repaired commit needed dict unpacking with override in the spec model",
    "C16-agent5": "first contact: exit 2 in 6 checks (`__init_subclass__` hook deriving the value sets). The spec model now runs such hooks; the slip (hasattr instead of vars) is reported by the snapshot",
    "C17-agent5": "first contact: exit 2 (the accessor class moved and was renamed). The parts of tpm_bitfield are located by role; M2 gained: attributes() must not iterate a generator created once at decoration time",
    "C18-agent5": "first contact: exit 2 (`if not code`). The classification walker decides the truthiness of masked locals; N1 reports the codes whose number is 0",
    "C19-agent5": "first contact: exit 2 (argparse choices taken from a table). L1 reads choices from table keys, L4 binds the Canonical(...) call to the constructor's signature: the dropped format_in falls back to the default",
    "C20-agent5": "first contact: exit 2 in 17 checks (handle ranges built by a helper function). The spec model evaluates straight-line helper functions with defaults / keywords; the off-by-one range is reported by the snapshot",
}
rows = []
for m in sorted(glob.glob(os.path.join(os.path.dirname(os.path.dirname(os.path.abspath(__file__))), "seeded", "*", "meta.json"))):
    d = json.load(open(m))
    diff = open(os.path.join(os.path.dirname(m), "patch.diff")).read()
    files = sorted({l[6:].split("/")[-1] for l in diff.splitlines() if l.startswith("+++ b/")})
    rules = []
    f = os.path.join(os.path.dirname(m), f"check_{d['property']}.txt")
    if os.path.exists(f):
        for l in open(f):
            parts = l.split(": ", 2)
            if len(parts) >= 2 and " in " in parts[1]:
                r = parts[1].split(" in ")[0]
                if r not in rules:
                    rules.append(r)
    rows.append((d["id"], d["property"], ", ".join(files), d["needs_to_manifest"], d["checks"].replace("checks that fired: ", "").replace("(rc=1)", ""),
                 "/".join(rules), STRENGTHENED.get(d["id"], "caught as built")))
print("| seed | property | changed | needs, to manifest | checks that fire | target rule | note |")
print("|------|----------|---------|--------------------|------------------|-------------|------|")
for r in rows:
    print("| " + " | ".join(x.replace("|", "/") for x in r) + " |")
