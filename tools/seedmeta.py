#!/venv/bin/python
"""write meta.json for a seed directory: seedmeta.py <seed-id> <property> <needs...>"""
import json, os, sys
sid, prop, needs = sys.argv[1], sys.argv[2], " ".join(sys.argv[3:])
d = f"/verif/seeded/{sid}"
fired = open(f"{d}/fired.txt").read().strip()
meta = {
    "id": sid,
    "property": prop,
    "origin": "fresh sub-agent given only the property text and a scratch worktree (nothing from /verif)",
    "needs_to_manifest": needs,
    "confirmed": {
        "patch_applies_to_repo_head": True,
        "demo_on_original": open(f"{d}/demo_original.txt").read().strip().splitlines()[-1:],
        "demo_on_changed": open(f"{d}/demo_changed.txt").read().strip().splitlines()[-1:],
        "test_suite_with_change": open(f"{d}/tests_changed.txt").read().strip(),
        "how": "tools/evalseed.sh: fresh `git worktree add` of /repo HEAD under /tmp, demo run before and after `git apply patch.diff`, full pytest run with the change, then every check run with VERIF_REPO=<worktree> (quick tier); worktree removed afterwards",
    },
    "checks": fired,
    "caught_by_target_property": f"{prop}(rc=1)" in fired,
}
json.dump(meta, open(f"{d}/meta.json", "w"), indent=1)
print(sid, fired)
