#!/venv/bin/python
"""Re-pin the layout snapshot (a deliberate, reviewed act - never run by a check)."""
import json, os, sys
HERE = os.path.dirname(os.path.dirname(os.path.abspath(__file__)))
sys.path.insert(0, HERE)
from tpmsa.project import Project
from tpmsa import ctx
p = Project(os.environ.get("VERIF_REPO", "/repo"))
c = ctx.canonical(p)
json.dump(c, open(os.path.join(HERE, "pinned", "layout.json"), "w"), indent=0, sort_keys=True)
print("pinned", len(c["types"]), "types")
# response-code name tables
from tpmsa.rules.c18 import MOD, TABLES
M = ctx.model(p)
out = {}
for t in TABLES:
    dv = M.force(M.env(MOD)[t])
    out[t] = {str(k): v.items[0] for k, v, _ in dv.items}
json.dump(out, open(os.path.join(HERE, "pinned", "rc_tables.json"), "w"), indent=0, sort_keys=True)
print("pinned rc tables", {t: len(v) for t, v in out.items()})
# shape of the tree (functions, their locals, module-level names): the reference of the normaliser
import ast
from tpmsa import normalise
os.environ["TPMSA_NO_NORMALISE"] = "1"
p2 = Project(os.environ.get("VERIF_REPO", "/repo"))
shape = {name: normalise.shape_of(m.tree) for name, m in sorted(p2.modules.items())}
json.dump(shape, open(os.path.join(HERE, "pinned", "shape.json"), "w"), indent=0, sort_keys=True)
print("pinned shape of", len(shape), "modules,", sum(len(v["functions"]) for v in shape.values()), "functions")
