#!/venv/bin/python
"""Re-pin the layout snapshot (a deliberate, reviewed act - never run by a check)."""
import json, os, sys
HERE = os.path.dirname(os.path.dirname(os.path.abspath(__file__)))
sys.path.insert(0, HERE)
from tpmsa.project import Project
from tpmsa import ctx
p = Project(os.environ.get("VERIF_REPO", "/repo"))
c = ctx.canonical(p)
json.dump(c, open(os.path.join(HERE, "pinned", "layout.json"), "w"), indent=0, sort_keys=True)
print("pinned", len(c["types"]), "types")
# response-code name tables
from tpmsa.rules.c18 import MOD, TABLES
M = ctx.model(p)
out = {}
for t in TABLES:
    dv = M.force(M.env(MOD)[t])
    out[t] = {str(k): v.items[0] for k, v, _ in dv.items}
json.dump(out, open(os.path.join(HERE, "pinned", "rc_tables.json"), "w"), indent=0, sort_keys=True)
print("pinned rc tables", {t: len(v) for t, v in out.items()})
