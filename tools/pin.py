#!/venv/bin/python
"""Re-pin the layout snapshot (a deliberate, reviewed act - never run by a check)."""
import json, os, sys
HERE = os.path.dirname(os.path.dirname(os.path.abspath(__file__)))
sys.path.insert(0, HERE)
from tpmsa.project import Project
from tpmsa import ctx
p = Project(os.environ.get("VERIF_REPO", "/repo"))
c = ctx.canonical(p)
json.dump(c, open(os.path.join(HERE, "pinned", "layout.json"), "w"), indent=0, sort_keys=True)
print("pinned", len(c["types"]), "types")
