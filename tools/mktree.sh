#!/bin/sh
# usage: mktree.sh <seed-or-benign-id> -> prints a scratch copy of /repo/src with the patch applied (under /dev/shm; remove it yourself)
id=$1
p=/verif/seeded/$id/patch.diff; [ -f "$p" ] || p=/verif/seeded/benign/$id/patch.diff
d=/dev/shm/t_$id; rm -rf "$d"; mkdir -p "$d"
cp -r /repo/src "$d/src"; find "$d" -name __pycache__ -prune -exec rm -rf {} +
(cd "$d" && git apply --unsafe-paths --directory "$d" "$p") || exit 1
echo "$d"
