#!/venv/bin/python
"""print the markdown table of seeded refactorings for DESIGN.md Appendix D from seeded/benign/*/meta.json"""
import glob, json, os
HERE = os.path.dirname(os.path.dirname(os.path.abspath(__file__)))
print("| id | area | what the refactoring does (from its patch) | checks that fired on first contact | now |")
print("|----|------|----------------------------------------------|------------------------------------|-----|")
for m in sorted(glob.glob(os.path.join(HERE, "seeded", "benign", "*", "meta.json"))):
    d = json.load(open(m))
    diff = open(os.path.join(os.path.dirname(m), "patch.diff")).read()
    helpers = sorted({l.split("def ", 1)[1].split("(")[0] for l in diff.splitlines() if l.startswith("+") and "def " in l and not l.startswith("+++")})
    plus = sum(1 for l in diff.splitlines() if l.startswith("+") and not l.startswith("+++"))
    minus = sum(1 for l in diff.splitlines() if l.startswith("-") and not l.startswith("---"))
    what = f"+{plus}/-{minus} lines" + (f"; new helpers: {', '.join(helpers[:6])}" if helpers else "")
    fc = " ".join(d["first_contact_checks_that_fired"]) or "none"
    now = d.get("checks_that_fire_now") or []
    state = "silent" if not now else ("**not benign** (confirmed): " if d.get("not_benign") else "**open**: ") + " ".join(now)
    print(f"| {d['id']} | {d['area'][:110]} | {what} | {fc} | {state} |")
