#!/venv/bin/python
"""re-run all 20 checks on every seeded refactoring and refresh `checks_that_fire_now` / `status` in its meta.json
(status "open" = still raises something and is not replayed as a benign twin; a `not_benign` note is kept)"""
import glob, json, os, shutil, subprocess, tempfile
from concurrent.futures import ThreadPoolExecutor
HERE = os.path.dirname(os.path.dirname(os.path.abspath(__file__)))
ALL = [f"C{i:02d}" for i in range(1, 21)]


def one(meta):
    d = os.path.dirname(meta)
    tmp = tempfile.mkdtemp(prefix="ub_", dir="/dev/shm")
    try:
        shutil.copytree("/repo/src", os.path.join(tmp, "src"), ignore=shutil.ignore_patterns("__pycache__", "*.pcap", "*.pyc"))
        r = subprocess.run(["git", "apply", "--unsafe-paths", "--directory", tmp, os.path.join(d, "patch.diff")], cwd=tmp, capture_output=True)
        if r.returncode:
            return meta, ["PATCH"]
        fired = []
        for c in ALL:
            env = dict(os.environ, VERIF_REPO=tmp, TPMSA_EVIDENCE_DIR=os.path.join(tmp, "_ev"), PYTHONDONTWRITEBYTECODE="1")
            p = subprocess.run([os.path.join(HERE, "check"), c], env=env, cwd=HERE, capture_output=True, text=True)
            if p.returncode:
                fired.append(f"{c}(rc={p.returncode})")
        return meta, fired
    finally:
        shutil.rmtree(tmp, ignore_errors=True)


metas = sorted(glob.glob(os.path.join(HERE, "seeded", "benign", "*", "meta.json")))
import sys as _sys
if _sys.argv[1:]:   # optional filters: substrings of the id
    metas = [m for m in metas if any(a in os.path.basename(os.path.dirname(m)) for a in _sys.argv[1:])]
with ThreadPoolExecutor(max_workers=8) as ex:
    for meta, fired in ex.map(one, metas):
        m = json.load(open(meta))
        m["checks_that_fire_now"] = fired if "not_benign" not in m else [f + " - true positive" if f.startswith("C20") else f for f in fired]
        if fired:
            m["status"] = "open"
        elif "status" in m:
            m["status"] = "silent after strengthening"
        json.dump(m, open(meta, "w"), indent=1)
        print(os.path.basename(os.path.dirname(meta)), " ".join(fired) or "silent")
