#!/venv/bin/python
"""Development-time validation of the *analyser* (not a registered check, decides no property):
imports the real package and compares runtime reflection with the statically reconstructed
layout model L.  Run:  /venv/bin/python selftest/fidelity.py
"""
import os
import sys

sys.path.insert(0, os.path.dirname(os.path.dirname(os.path.abspath(__file__))))
sys.path.insert(0, os.path.join(os.environ.get("VERIF_REPO", "/repo"), "src"))

from dataclasses import fields, is_dataclass  # noqa: E402

from tpmsa.layout import Layout, merge_intervals  # noqa: E402
from tpmsa.project import Project  # noqa: E402
from tpmsa.specmodel import SpecModel  # noqa: E402


def rt_key(t):
    if t is None:
        return "None"
    if hasattr(t, "__origin__") and t.__origin__ is list:
        return f"list[{rt_key(t.__args__[0])}]"
    import typing
    if t is typing.Any:
        return "Any"
    return t.__name__


def rt_intervals(vv):
    from tpmstream.spec.common.values import NamedRange
    iv = []

    def add(v):
        if isinstance(v, range):
            if v.stop > v.start:
                iv.append([v.start, v.stop - 1])
        elif isinstance(v, NamedRange):
            iv.append([v._start, v._end - 1])
        elif isinstance(v, type):
            for a in v:
                add(a)
        else:
            iv.append([int(v), int(v)])

    for v in vv._values:
        add(v)
    return merge_intervals(iv)


def main():
    L = Layout(SpecModel(Project()))
    canon = L.canonical()
    from tpmstream.spec import all_types
    from tpmstream.spec.commands import Command, Response, command_response_types
    from tpmstream.spec.structures import structures_types

    mism = []
    rt = {t.__name__: t for t in structures_types}
    if sorted(rt) != sorted(L.struct_types):
        mism.append(("structure type set", sorted(set(rt) ^ set(L.struct_types))))
    rt_area = [t for t in command_response_types if t.__name__.startswith("TPMS_")]
    if len(rt_area) != len(L.area_types):
        mism.append(("area type count", len(rt_area), len(L.area_types)))
    n = 0
    pairs = [(k, c, rt[k]) for k, c in L.struct_types.items() if k in rt]
    pairs += [("Command", L.Command, Command), ("Response", L.Response, Response)]
    for tn, dv in L.tables.items():
        import importlib
        mod = importlib.import_module(dv.module.name)
        table = getattr(mod, tn)
        if [int(k) for k in table] != [k.value for k, _, _ in dv.items]:
            mism.append((tn, "keys differ"))
        for (k, v, _), (rk, rv) in zip(dv.items, table.items()):
            pairs.append((L.key(v), v, rv))
    for k, c, t in pairs:
        n += 1
        d = canon["types"].get(k) or L.canon_type(k, c)
        if hasattr(t, "_int_size"):
            if d.get("int_size") != t._int_size or d.get("signed") != t._signed:
                mism.append((k, "int_size/signed", d.get("int_size"), t._int_size))
            if d["valid"] != rt_intervals(t._valid_values):
                mism.append((k, "valid", d["valid"][:3], rt_intervals(t._valid_values)[:3]))
            if "enum" in d:
                rmem = []
                import inspect
                from tpmstream.spec.common.values import NamedRange, _is_public_non_funtion_attr
                for name, a in inspect.getmembers(t):
                    if _is_public_non_funtion_attr(name, a):
                        if isinstance(a, NamedRange):
                            rmem.append([name, a._start, a._end - 1])
                        elif "masks" in d:
                            pass
                        else:
                            rmem.append([name, int(a)])
                if "masks" not in d and rmem != d["enum"]:
                    mism.append((k, "enum members", d["enum"][:3], rmem[:3]))
            if "masks" in d:
                import inspect
                from tpmstream.spec.common.values import _is_public_non_funtion_attr
                rm = {name: a._value for name, a in inspect.getmembers(t) if _is_public_non_funtion_attr(name, a)}
                if rm != d["masks"]:
                    mism.append((k, "masks", d["masks"], rm))
        elif is_dataclass(t):
            rf = [[f.name, rt_key(f.type)] for f in fields(t)]
            mf = [[a, b.split(":")[-1]] for a, b in d["fields"]]
            if rf != mf:
                mism.append((k, "fields", mf, rf))
            for attr in ("_selectors", "_list_size"):
                r = getattr(t, attr, None)
                if isinstance(r, dict) and attr != "_type_maps":
                    mm = [[a, b] for a, b in d.get(attr, [])]
                    if [[a, b] for a, b in r.items()] != mm and attr in d:
                        mism.append((k, attr, mm, r))
            r = getattr(t, "_selected_by", None)
            if r is not None:
                rr = [[a, (None if b is None else (int(b) if not isinstance(b, type) else b.__name__))] for a, b in r.items()]
                mm = [[a, (None if b is None else (b if isinstance(b, int) else b["value"] if "value" in b else b["type"]))] for a, b in d["_selected_by"]]
                if rr != mm:
                    mism.append((k, "_selected_by", mm, rr))
    # text forms of sample values (naming model)
    print(f"compared {n} types; mismatches: {len(mism)}")
    for m in mism[:40]:
        print("  MISMATCH", m)
    return 1 if mism else 0


if __name__ == "__main__":
    sys.exit(main())
